import json,sys
sid, prop, hint = sys.argv[1], sys.argv[2], sys.argv[3]
props={l['id']:l for l in map(json.loads, open('/verif/properties.jsonl'))}
st=props[prop]['statement']
print(f'''You are helping test a verification harness by producing one realistic regression in a Rust project. Work ONLY inside the scratch git worktree /tmp/seedwt_{sid} (a checkout of the project Aleph-Alpha/ts-rs: a Rust derive macro `#[derive(TS)]` + runtime library that generates TypeScript type declarations from Rust structs/enums, with serde-attribute compatibility and multi-file export). Do not touch /repo or /verif and do not read anything under /verif. No network is available; use `CARGO_NET_OFFLINE=true cargo ... --offline`.

The property the project is supposed to satisfy:

"{st}"

Your job: make ONE small, plausible source change (the kind of thing a maintainer might commit during a refactor, optimisation or feature tweak -- not sabotage that is obvious at a glance) to the library sources under /tmp/seedwt_{sid}/macros/src or /tmp/seedwt_{sid}/ts-rs/src such that:
  1. the workspace still compiles,
  2. the full existing test suite still passes unchanged: `cd /tmp/seedwt_{sid} && CARGO_NET_OFFLINE=true cargo test --workspace --no-fail-fast --offline` (465 tests + 6 doctests),
  3. the property above is violated for at least one input a user could realistically write.

Be subtle: the violation should need a fairly narrow combination of circumstances (a boundary value, a particular ordering, a particular combination of attributes or paths), the way real regressions do. {hint} Read the code first to find where the behaviour lives.

Deliverables, all under /tmp/seed_out/{sid}/ (create the directory):
  - patch.diff : `git -C /tmp/seedwt_{sid} diff` of your change (library sources only; no test edits).
  - demo/ : a tiny standalone cargo crate (Cargo.toml with an empty `[workspace]` table, a path dependency `ts-rs = {{ path = "/tmp/seedwt_{sid}/ts-rs" }}` (features as needed) plus serde/serde_json from the offline cache only if you need them; copy /tmp/seedwt_{sid}/Cargo.lock next to it so it resolves offline) with either a `main` (run with `cargo run --offline`) or tests (run with `cargo test --offline`) that exits 0 when the property holds for its inputs and non-zero (printing what went wrong) when it is violated. It must fail with your change applied and pass on the pristine tree. Include a couple of control cases that pass either way. Use a fresh temporary directory (std::env::temp_dir + process id) for any files it writes and clean it up.
  - README.md : what you changed, why it looks plausible, which inputs trigger it, and the exact commands + outcomes you ran (suite with the change, demo with and without).

When done: revert the worktree (`git -C /tmp/seedwt_{sid} checkout -- .`), delete build output (`rm -rf /tmp/seedwt_{sid}/target /tmp/seed_out/{sid}/demo/target`), and report briefly what the change is and what triggers it.''')
