#!/bin/bash
# usage: confirm_seed.sh <ID> <demo command, run inside /tmp/seed_out/<ID>/demo>
# re-checks a candidate seeded change in the scratch worktree /tmp/seedwt_<ID>: suite passes with it, demo fails with it and passes without
id=$1; shift; demo="$*"
wt=/tmp/seedwt_$id; out=/tmp/seed_out/$id
export CARGO_NET_OFFLINE=true
cd $wt || exit 9
git checkout -q -- . ; git checkout -q --detach $(git -C /repo rev-parse HEAD) || exit 9
git apply --check $out/patch.diff || { echo "PATCH DOES NOT APPLY"; exit 8; }
git apply $out/patch.diff
suite=$(cargo test --workspace --no-fail-fast --offline 2>&1 | grep -E "^test result" | awk '{p+=$4; f+=$6} END {print p" passed "f" failed"}')
echo "suite with patch: $suite"
(cd $out/demo && bash -c "$demo" > $out/confirm_with.log 2>&1); rc_with=$?
git apply -R $out/patch.diff
(cd $out/demo && bash -c "$demo" > $out/confirm_without.log 2>&1); rc_without=$?
echo "demo with patch rc=$rc_with ; without rc=$rc_without"
rm -rf $wt/target $out/demo/target
git status --short | head -3
