#!/usr/bin/env python3
"""Regenerates MANIFEST.json from the table below (run after adding/removing a check)."""
import json
import os

HERE = os.path.dirname(os.path.abspath(__file__))
TECH = 'bounded symbolic execution of rustc MIR (own engine "mirsym"), z3 decides every path; counterexamples replayed natively'
NOTE = ('Trusted base: rustc nightly MIR dump of the working tree; the mirsym interpreter and its std models (each run validates '
        'them against the natively compiled real functions and replays every counterexample natively before reporting); z3 5.1. '
        'The claim is bounded: see coverage.bounds / coverage.outside_the_claim in the evidence.')

CLAIMED = {
    'C09': dict(
        text='For every ASCII identifier up to the stated length (and shorter ones over a non-ASCII sample), each of the 8 rules and both '
             'positions, the real Inflection method ts-rs calls returns exactly what serde_derive\'s own case.rs returns whenever serde '
             'returns: z3 finds no differing input on any feasible path of the two MIR bodies. from_variant\'s routing of '
             'rename_all_fields / variant rename_all is decided for all attribute combinations; corpus items combining rename_all, '
             'rename_all_fields and explicit renames are bound as serde\'s rules prescribe (tier B, parsed and normalised).',
        ref='DESIGN.md 4 (C09)'),
    'C08': dict(
        text='For every pair (importing file, imported file) of the form <base><symbolic bytes>.ts with the stated number of symbolic '
             'bytes over {/ . a t s} (component structure, `.`/`..`, empty components, dotted names and names ending in ts emerge from '
             'the bytes), each listed base spelling and working directory, with import-esm off and on: import_path returns Ok exactly '
             'when neither path climbs above the root, never panics, and its specifier starts with ./ or ../, ends in .js iff esm, and '
             'resolved (specifier + ".ts") against the importing file\'s directory denotes exactly the imported file. Decided by z3 on '
             'every feasible path of the real MIR of import_path/diff_paths/absolute.',
        ref='DESIGN.md 4 (C08)'),
    'C05': dict(
        text='For K types exported to one file (K=2 in full, K=3 with reduced variation) with symbolic one/two-letter names (prefix pairs, '
             'optional <T>), a doc block whose body is 3 symbolic bytes or one of four fixed blocks, symbolic import blocks and bodies '
             '(multi-line, string literal), every export order, the real export_and_merge/merge (MIR) over a file-system + registry model '
             'yields after every step exactly the independently constructed canonical file (notice, union of imports sorted, declarations '
             'intact in name order) and a re-export changes nothing; no panic, no access outside the mutex. Thread interleavings are '
             'covered as orders of critical sections (the lock-discipline assertion is checked on every path). The class of doc blocks '
             'containing an empty line is a listed known finding; everything outside it must hold.',
        ref='DESIGN.md 4 (C05)'),
    'C16': dict(
        text='Claimed for the solver-reachable kernels of the statement: (1) no panic path exists in the real Inflection methods and '
             'raw_name_to_ts_field for any identifier/name within the length bound (ASCII + non-ASCII sample); (2) for each of the four '
             'attribute kinds, with every Option/bool of the record and the item shape symbolic, assert_validity rejects every '
             'combination of the frozen incompatibility table and nothing else, never panics; (3) EnumAttr::tagged() succeeds whenever '
             'assert_validity did (the expect() in from_variant is unreachable); Optional::or and unit::check_attributes are total and '
             'correct; (4) tier B: the generated code plants the compile-time Option probe for exactly the fields marked `optional`. Not '
             'claimed: that accepted expansions compile (needs rustc in the loop).',
        ref='DESIGN.md 4 (C16)'),
    'C15': dict(
        text='For attribute lists of up to 3 attributes whose kind (name-value or not, path `doc` or not, string literal or not) is '
             'symbolic and whose doc texts are all strings of the stated lengths over {* / newline space a " backslash}, the real '
             'parse_docs/escape_doc (MIR) return either the empty string (no doc text) or exactly one block that starts with /**, ends '
             'with */ + newline, contains no other */ (also none formed with the surrounding stars), and contains every text in order '
             '(modulo the *\\/ escape); never panic. FieldAttr::merge concatenates docs and drops them for flattened fields, for all '
             'attribute records. Tier B: corpus items documented in every position vs their doc-less twins denote the same type, and each named '
             'field\'s text is one block immediately in front of its property; documented types in a shared file keep their block in front of '
             'their declaration for every export order. Layout of DOCS before `export` is C04.',
        ref='DESIGN.md 4 (C15)'),
    'C03': dict(
        text='Runtime half: for a type T visiting three dependencies (plus a tail with repeats / itself) whose names (distinct letters), '
             'placements (menu incl. same file, ./ and .. spellings, sub-directories, plus 2 symbolic path bytes for one of them), '
             'exportability and export directory are symbolic, with import-esm off and on, the text produced by the real '
             'export_to_string/generate_imports/TS::dependencies/Dependency::from_ty/import_path (MIR) is parsed back and on every path: '
             'exactly the visited exportable dependencies living in another file are imported, each once, from a specifier that resolves to '
             'their file; statements and names strictly sorted; no self-import; Err exactly when a placement climbs above the root. '
             'Macro half (tier B): for every item of the corpus (about 130 derive inputs expanded by the real derive, type arguments abstract) '
             'visit_dependencies reports exactly the parameters and corpus types the binding refers to by name (with their generic arguments) '
             'and forwards exactly the inlined / flattened ones. Files shared by several types (different names from one path) and the shared '
             'file of a generic type under two instantiations (WithoutGenerics) are decided against the canonical text.',
        ref='DESIGN.md 4 (C03)'),
    'C04': dict(
        text='Lexical well-formedness kernels: for every name up to the length bound over an alphabet with quotes, backslash, line breaks, '
             'digits, $ and a non-ASCII sample, raw_name_to_ts_field returns the name itself only if it is an IdentifierName, else a closed '
             'double-quoted literal that decodes to the name (z3 decides a decode-match formula on every path); to_ts_ident strips exactly '
             'the r# prefix; export_to_string is NOTE ++ import lines ++ blank line ++ DOCS? ++ "export " ++ decl ++ newline with DOCS/decl '
             'uninterpreted. Names with a Rust-alphanumeric that is not an ECMAScript identifier char are a listed known finding. A full '
             'TypeScript grammar is outside; instead the inline() text of every corpus item (names in every derive position: renamed, rename_all, '
             '`type`-overridden, raw, struct-variant fields, variant / tag / content keys) must parse under a strict TypeScript type grammar '
             '(props/tsparse.py), variant-name literals with a symbolic name are decided (listed known finding F15), and the type-identifier '
             'position is decided for a symbolic container rename (listed known finding F18: non-identifier renames are written verbatim).',
        ref='DESIGN.md 4 (C04)'),
    'C06': dict(
        text='For every history of 2 (quick: reduced 3) calls over {export, export_all, export_all_to} x {A, B (share a file), C (depends on '
             'A), D (not exportable)}, every listed spelling of the export directory (env and argument) and initial directory content '
             '(empty / stale files at the targets), the real entry points (MIR, down to merge) over the file-system + registry models leave '
             'exactly the independently computed canonical contents for the set of types exported: independent of order, entry point and '
             'spelling; stale bytes never survive; unrelated files untouched; non-exportable roots give Err. Two-call histories with a change '
             'of the working directory in between: every relative directory means the one below the working directory at the time of the call.',
        ref='DESIGN.md 4 (C06)'),
    'C11': dict(
        text='For every dependency graph on 3 types (all adjacency matrices incl. self-loops and cycles), symbolic '
             'exportability and placements (nested, ../, shared file), exported with export_all / export_all_to into directories with '
             'dot segments and pre-existing unrelated files: the files created are exactly those of the exportable types reachable from '
             'the root through exportable types, each created once, nothing else written, contents canonical (imports relative to the '
             'directory actually exported into), and default_output_path() names the root\'s file. Tier B: the derive-generated output_path() '
             'obeys the documented rule for every export_to string within the bound, and the derive-generated visit_dependencies of the corpus '
             'reports what the binding refers to (reachability).',
        ref='DESIGN.md 4 (C11)'),
    'C13': dict(
        text='Output boundary only: the text of export_to_string is byte-identical for every permutation and duplication of the dependency '
             'visit order (the channel through which the derive\'s hash-set order and test scheduling reach the runtime), for all the '
             'C03 cells; a file shared by 2-3 types equals the canonical file for every export order; hash-collection iteration in the '
             'executed code yields a symbolic order; every two-call history over the entry points leaves the canonical directory (which call '
             'reaches a shared dependency first does not matter); two instantiations of a generic type give one text. Independent compilations '
             'as such are not encodable (outside).',
        ref='DESIGN.md 4 (C13)'),
    'C17': dict(
        text='For histories of 2 (thorough: 3) export calls with one obstacle of the four stated kinds (target is a directory, parent is a '
             'regular file, more `..` than depth with depth+1/+2/+4 segments, non-exportable root) injected before any step, over every '
             'entry point: the obstructed call returns Err on every path (no panic path is feasible), files outside the recursive '
             'export\'s own targets are byte-identical, the failed name is not in the registry, and after removing the obstacle the retry '
             'yields exactly the directory of the fault-free history.',
        ref='DESIGN.md 4 (C17)'),
    'C10': dict(
        text='For every attribute argument list of up to 4 (thorough: 5) tokens whose token kinds (ident, =, comma, string / int literal, '
             'group, other punct) and identifier / literal texts (over the vocabulary of all table keys, the rename_all values and '
             '"anything else") are solver variables, each of the eight generated parsers (ts and serde table x struct, enum, variant, '
             'field) returns on every path exactly what a reference interpreter of the documented attribute grammar returns: same '
             'record, same Ok/Err; in particular unknown or list-form serde items are skipped without touching their neighbours and the '
             'serde and ts tables agree on every shared key. For attribute lists of 2 (thorough also: 3 short) attributes of symbolic kind ts/serde/other, '
             'from_attrs equals "all ts lists merged first, serde lists underneath (a serde list that fails to parse dropped as a whole), '
             'bools or-ed, serde ignored after ts(skip)"; with serde-compat off serde attributes have no effect; no-serde-warnings does '
             'not change the meaning. Never a panic.',
        ref='DESIGN.md 4 (C10)'),
    'C12': dict(
        text='Every built-in impl TS of ts-rs/src/lib.rs (direct and macro-made: primitives, NonZero*, strings/paths/net addresses, Option, '
             'Result, Vec, slices, arrays, maps, sets, ranges, the wrapper types, tuples of arity 1..=10) is executed with abstract type '
             'parameters (their TS methods are uninterpreted holes, so the result covers every instantiation and nesting depth) and the '
             'array length as a solver variable 0..=66: name() and inline() equal serde\'s JSON shape over the same holes, visit_generics '
             'visits exactly the type arguments, visit_dependencies forwards exactly theirs. The shape table is validated against '
             'serde_json on sample values and the impl pairing against native name() on every run. PhantomData/Weak are a listed known '
             'finding. The impls behind every `*-impl` cargo feature (chrono, bigdecimal, uuid, bson, bytes, url, indexmap, ordered-float, heapless, '
             'semver, smol_str, serde_json, tokio) are executed from a second MIR dump against a shape table validated on serde_json samples; '
             'bson ObjectId is a listed known finding; types without a serde representation are outside.',
        ref='DESIGN.md 6 (C12)'),
    'C07': dict(
        text='For a corpus of generic definitions (1-2 type parameters, lifetimes, bounds and where-clauses, defaults, concrete(..), '
             'parameters bare / in Vec, Option, tuple, map, Box, reference / in another generic / inlined / flattened / in enum variants '
             'of every tagging) expanded by the real derive, the generated decl(), decl_concrete(), name(), inline(), ident() and the dummy '
             'parameter types are executed from their MIR with the type arguments abstract (uninterpreted), hence for all arguments: no '
             'method panics; decl() contains no trace of the arguments; its header is `type <ident><free params in order, with the '
             'TypeScript names of their defaults> = `; concretised parameters are not mentioned; name() = ident<argument names>; the '
             'declaration body equals inline() with the arguments replaced by the parameter names; decl_concrete() = `type N = inline();`. '
             'Each rope is validated at concrete arguments against the natively compiled derive output.',
        ref='DESIGN.md 6 (C07)'),
    'C14': dict(
        text='Presentation equations over the corpus, for all type arguments: inlined field = by-name field with the name replaced by the '
             'inline form; field/variant/container `as` = the binding with that type; decl_concrete() = `type N = inline();` for every item; '
             'inline+flatten of a generic struct reproduce its body. Flattening is decided with the flattened text as a symbolic string '
             '(object bodies and delimited members of the stated lengths): the real replace(" } & { ", " ") and parenthesis unwrapping yield '
             'exactly the structural merge on every path. The class "lone flattened member whose outer parentheses do not match" is a '
             'listed known finding. Semantic equations: for some 40 corpus items the inline() text is parsed as a TypeScript type (precedence, '
             'parentheses), references to corpus types are expanded by their own inline form, and the normal form (DNF, merged object literals) '
             'equals that of the by-name twin / of the type serde\'s representation prescribes.',
        ref='DESIGN.md 6 (C14)'),
}

NOT_APPLICABLE = {
    'C01': 'needs serde_derive\'s generated Serialize + serde_json as oracle for every program; no encoding within reach, a hand model would make the solver decide facts about the model (DESIGN.md 5)',
    'C02': 'same obstacle in the other direction: serde\'s generated Deserialize is the oracle (DESIGN.md 5)',
}
PENDING = 'check not built yet (work in progress; see DESIGN.md section 0 for the plan)'


def main():
    props = [json.loads(l)['id'] for l in open(os.path.join(HERE, 'properties.jsonl'))]
    checks, na = [], []
    for p in props:
        if p in CLAIMED:
            c = CLAIMED[p]
            checks.append({
                'property_id': p,
                'quick_cmd': f'./check {p}',
                'thorough_cmd': f'VERIF_TIER=thorough ./check {p}',
                'evidence_file': f'/verif/evidence/{p}.json',
                'replay_cmd_template': f'./check {p} --replay {{path}}',
                'engine': 'mirsym',
                'level_claimed': {'category': 'other', 'text': c['text'], 'design_ref': c['ref']},
                'level_note': NOTE,
                'technique': TECH,
            })
        else:
            na.append({'property_id': p, 'reason': NOT_APPLICABLE.get(p, PENDING)})
    m = {
        'version': 1,
        'setup_cmd': './setup.sh',
        'hooks': {'guard': 'none', 'enable': 'no source hooks: the engine reads rustc\'s MIR dump of the unmodified crates and builds '
                  're-rooted scratch copies for native replay', 'baseline_off_cmd': 'cd /repo && cargo test --workspace --no-fail-fast --offline',
                  'source_commits': [], 'add_only': True},
        'engines': [{'name': 'mirsym', 'path': '/verif/mirsym', 'serves_properties': sorted(CLAIMED),
                     'kind_free_text': 'symbolic executor over rustc MIR text (Python) + z3; decision-replay path exploration; std calls as validated models'}],
        'checks': checks,
        'not_applicable': na,
        'notes': 'Genuine defects found are repaired by `fix:` commits in /repo or listed in known_findings.json; see DESIGN.md section 3.',
    }
    with open(os.path.join(HERE, 'MANIFEST.json'), 'w') as fh:
        json.dump(m, fh, indent=1)


if __name__ == '__main__':
    main()
