
// ---------------------------------------------------------------------------------------------
// appended by /verif (native replay + translator validation); not part of ts-rs
// ---------------------------------------------------------------------------------------------
#[allow(unused, dead_code)]
pub mod verif_replay {
    use std::{
        path::{Path, PathBuf},
        sync::Mutex,
    };

    use crate::{TypeVisitor, TS};

    pub fn merge(a: String, b: String) -> String {
        super::merge(a, b)
    }
    pub fn import_path(from: &str, import: &str) -> Result<String, String> {
        super::import_path(Path::new(from), Path::new(import)).map_err(|e| format!("{e:?}"))
    }
    pub fn absolute(p: &str) -> Result<String, String> {
        super::path::absolute(Path::new(p))
            .map(|p| p.to_string_lossy().into_owned())
            .map_err(|e| format!("{e:?}"))
    }
    pub fn diff_paths(p: &str, base: &str) -> Result<String, String> {
        super::path::diff_paths(Path::new(p), Path::new(base))
            .map(|p| p.to_string_lossy().into_owned())
            .map_err(|e| format!("{e:?}"))
    }
    pub fn export_and_merge(path: &str, name: &str, text: &str) -> Result<(), String> {
        super::export_and_merge(PathBuf::from(path), name.to_owned(), text.to_owned()).map(|_| ()).map_err(|e| format!("{e:?}"))
    }
    pub fn registry_reset() {
        super::get_export_paths().lock().unwrap_or_else(|e| e.into_inner()).clear();
    }
    pub fn registry_dump() -> String {
        let g = super::get_export_paths().lock().unwrap_or_else(|e| e.into_inner());
        let mut v: Vec<String> = g
            .iter()
            .map(|(k, s)| {
                let mut names: Vec<&String> = s.iter().collect();
                names.sort();
                format!("{}={}", k.display(), names.iter().map(|x| x.as_str()).collect::<Vec<_>>().join(","))
            })
            .collect();
        v.sort();
        v.join(";")
    }

    // ---- a small universe of configurable types U<0> .. U<7>
    #[derive(Clone, Default)]
    pub struct TypeCfg {
        pub name: String,
        pub decl: String,
        pub out: Option<String>,
        pub deps: Vec<usize>,
    }
    pub static CFG: Mutex<Vec<TypeCfg>> = Mutex::new(Vec::new());
    pub fn set_cfg(i: usize, c: TypeCfg) {
        let mut g = CFG.lock().unwrap();
        while g.len() <= i {
            g.push(TypeCfg::default());
        }
        g[i] = c;
    }
    fn cfg(i: usize) -> TypeCfg {
        CFG.lock().unwrap().get(i).cloned().unwrap_or_default()
    }

    pub const DOCS_TABLE: [Option<&'static str>; 8] = [
        None,
        None,
        None,
        None,
        Some("/**\n * doc\n */\n"),
        Some("/** a\n\n b */\n"),
        Some("/**\n * export type Zz x\n */\n"),
        Some("/** one */\n"),
    ];

    pub struct U<const I: usize>;

    fn dispatch<V: TypeVisitor>(i: usize, v: &mut V) {
        match i {
            0 => v.visit::<U<0>>(),
            1 => v.visit::<U<1>>(),
            2 => v.visit::<U<2>>(),
            3 => v.visit::<U<3>>(),
            4 => v.visit::<U<4>>(),
            5 => v.visit::<U<5>>(),
            6 => v.visit::<U<6>>(),
            _ => v.visit::<U<7>>(),
        }
    }

    impl<const I: usize> TS for U<I> {
        type WithoutGenerics = Self;
        type OptionInnerType = Self;
        const DOCS: Option<&'static str> = DOCS_TABLE[I];

        fn ident() -> String {
            cfg(I).name
        }
        fn name() -> String {
            cfg(I).name
        }
        fn decl() -> String {
            cfg(I).decl
        }
        fn decl_concrete() -> String {
            cfg(I).decl
        }
        fn inline() -> String {
            cfg(I).name
        }
        fn inline_flattened() -> String {
            cfg(I).name
        }
        fn output_path() -> Option<PathBuf> {
            cfg(I).out.map(PathBuf::from)
        }
        fn visit_dependencies(v: &mut impl TypeVisitor)
        where
            Self: 'static,
        {
            for d in cfg(I).deps {
                dispatch(d, v);
            }
        }
    }

    macro_rules! on_type {
        ($i:expr, $f:ident $(, $a:expr)*) => {
            match $i {
                0 => <U<0> as TS>::$f($($a),*),
                1 => <U<1> as TS>::$f($($a),*),
                2 => <U<2> as TS>::$f($($a),*),
                3 => <U<3> as TS>::$f($($a),*),
                4 => <U<4> as TS>::$f($($a),*),
                5 => <U<5> as TS>::$f($($a),*),
                6 => <U<6> as TS>::$f($($a),*),
                _ => <U<7> as TS>::$f($($a),*),
            }
        };
    }

    pub fn export(i: usize) -> Result<(), String> {
        on_type!(i, export).map_err(|e| format!("{e:?}"))
    }
    pub fn export_all(i: usize) -> Result<(), String> {
        on_type!(i, export_all).map_err(|e| format!("{e:?}"))
    }
    pub fn export_all_to(i: usize, dir: &str) -> Result<(), String> {
        on_type!(i, export_all_to, dir).map_err(|e| format!("{e:?}"))
    }
    pub fn export_to_string(i: usize) -> Result<String, String> {
        on_type!(i, export_to_string).map_err(|e| format!("{e:?}"))
    }
    pub fn default_output_path(i: usize) -> Option<String> {
        on_type!(i, default_output_path).map(|p| p.to_string_lossy().into_owned())
    }
}
