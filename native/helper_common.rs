use std::io::{BufRead, Write};

fn esc(s: &str) -> String {
    s.replace('\\', "\\\\").replace('\t', "\\t").replace('\n', "\\n").replace('\r', "\\r")
}
fn unesc(s: &str) -> String {
    let mut out = String::new();
    let mut it = s.chars();
    while let Some(c) = it.next() {
        if c == '\\' {
            match it.next() {
                Some('n') => out.push('\n'),
                Some('t') => out.push('\t'),
                Some('r') => out.push('\r'),
                Some(o) => out.push(o),
                None => out.push('\\'),
            }
        } else {
            out.push(c);
        }
    }
    out
}
fn res(r: Result<String, String>) -> Vec<String> {
    match r {
        Ok(s) => vec!["ok".to_owned(), s],
        Err(e) => vec!["err".to_owned(), e],
    }
}
fn main() {
    std::panic::set_hook(Box::new(|_| {}));
    let stdin = std::io::stdin();
    let stdout = std::io::stdout();
    let mut out = stdout.lock();
    for line in stdin.lock().lines() {
        let line = line.unwrap();
        let f: Vec<String> = line.split('\t').map(unesc).collect();
        let r = std::panic::catch_unwind(|| handle(&f));
        let v = match r {
            Ok(v) => v,
            Err(p) => {
                let msg = if let Some(s) = p.downcast_ref::<&str>() {
                    s.to_string()
                } else if let Some(s) = p.downcast_ref::<String>() {
                    s.clone()
                } else {
                    "?".to_owned()
                };
                vec!["panic".to_owned(), msg]
            }
        };
        writeln!(out, "{}", v.iter().map(|x| esc(x)).collect::<Vec<_>>().join("\t")).unwrap();
        out.flush().unwrap();
    }
}
