use tsm_lib::verif_replay as r;

fn handle(f: &[String]) -> Vec<String> {
    match f[0].as_str() {
        "inflect" => res(r::inflect(&f[1], &f[2], &f[3])),
        "serde_case" => {
            let rule = case::RenameRule::from_str(&f[1]).map_err(|_| ()).expect("rule");
            res(Ok(match f[2].as_str() {
                "field" => rule.apply_to_field(&f[3]),
                _ => rule.apply_to_variant(&f[3]),
            }))
        }
        "rawname" => res(r::raw_name(&f[1])),
        "fieldname" => res(r::field_name(&f[1], &f[2], &f[3])),
        "variantname" => res(r::variant_name(&f[1], &f[2])),
        "docs" => res(r::docs(&f[1..])),
        "parse" => res(r::parse_list(&f[1], &f[2], &f[3])),
        "fromattrs" => res(r::from_attrs(&f[1], &f[2])),
        "expand" => res(r::expand(&f[1])),
        "chars" => {
            let mut v = vec!["ok".to_owned()];
            for cp in &f[1..] {
                let c = char::from_u32(cp.parse().unwrap()).unwrap();
                let hex = |s: String| s.chars().map(|c| format!("{:x}", c as u32)).collect::<Vec<_>>().join(" ");
                v.push(format!(
                    "{}:{}:{}:{}:{}:{}:{}:{}:{}:{}",
                    c as u32,
                    c.is_uppercase() as u8,
                    c.is_lowercase() as u8,
                    c.is_alphanumeric() as u8,
                    c.is_numeric() as u8,
                    c.is_whitespace() as u8,
                    c.is_alphabetic() as u8,
                    hex(c.to_lowercase().collect()),
                    hex(c.to_uppercase().collect()),
                    c.len_utf8()
                ));
            }
            v
        }
        _ => vec!["err".to_owned(), "harness: unknown command".to_owned()],
    }
}
