
// ---------------------------------------------------------------------------------------------
// appended by /verif (native replay + translator validation); not part of ts-rs
// ---------------------------------------------------------------------------------------------
#[allow(unused, dead_code)]
pub mod verif_replay {
    use quote::ToTokens;
    use syn::parse::Parser;

    use crate::attr::{Attr, EnumAttr, FieldAttr, Inflection, Optional, Serde, StructAttr, VariantAttr};

    fn opt_tokens<T: ToTokens>(o: &Option<T>) -> String {
        match o {
            None => "-".to_owned(),
            Some(t) => format!("[{}]", t.to_token_stream()),
        }
    }
    fn opt_str(o: &Option<String>) -> String {
        match o {
            None => "-".to_owned(),
            Some(t) => format!("{t:?}"),
        }
    }
    fn opt_infl(o: &Option<Inflection>) -> String {
        match o {
            None => "-".to_owned(),
            Some(t) => format!("{t:?}"),
        }
    }
    fn optional(o: &Optional) -> String {
        match o {
            Optional::NotOptional => "-".to_owned(),
            Optional::Optional { nullable } => format!("optional(nullable={nullable})"),
        }
    }

    // ---- observations through the derive's own pipeline (robust against refactoring of its internals)
    fn lits_after(ts: proc_macro2::TokenStream, first: &str, out: &mut Vec<Vec<String>>) {
        let toks: Vec<proc_macro2::TokenTree> = ts.into_iter().collect();
        if let Some(proc_macro2::TokenTree::Literal(l)) = toks.first() {
            if l.to_string() == first {
                let mut v = vec![];
                for t in &toks[1..] {
                    if let proc_macro2::TokenTree::Literal(l) = t {
                        if let Ok(ls) = syn::parse_str::<syn::LitStr>(&l.to_string()) {
                            v.push(ls.value());
                        }
                    }
                }
                out.push(v);
            }
        }
        for t in toks {
            if let proc_macro2::TokenTree::Group(g) = t {
                lits_after(g.stream(), first, out);
            }
        }
    }

    pub fn unquote(name: &str) -> String {
        if name.len() >= 2 && name.starts_with('"') && name.ends_with('"') {
            let inner = &name[1..name.len() - 1];
            let mut out = String::new();
            let mut it = inner.chars();
            while let Some(c) = it.next() {
                if c == '\\' {
                    match it.next() {
                        Some('n') => out.push('\n'),
                        Some('r') => out.push('\r'),
                        Some(o) => out.push(o),
                        None => out.push('\\'),
                    }
                } else {
                    out.push(c);
                }
            }
            out
        } else {
            name.to_owned()
        }
    }

    /// name of the single field of `#[ts(<attr>)] struct S { <ident>: u8 }` as it appears in the binding
    pub fn field_name(container_attr: &str, field_attr: &str, ident: &str) -> Result<String, String> {
        let src = format!("#[ts({container_attr})] struct S {{ #[ts({field_attr})] {ident}: u8 }}");
        let src = src.replace("#[ts()]", "");
        let exp: proc_macro2::TokenStream = expand(&src)?.parse().map_err(|_| "lex".to_owned())?;
        let mut hits = vec![];
        lits_after(exp, "\"{}{}{}: {},\"", &mut hits);
        match hits.first() {
            Some(v) if v.len() >= 2 => Ok(v[1].clone()),
            _ => Err("harness: field format call not found".to_owned()),
        }
    }

    /// name of the unit variant of `#[ts(<attr>)] enum E { <ident> }` as it appears in the binding
    pub fn variant_name(container_attr: &str, ident: &str) -> Result<String, String> {
        let src = format!("#[ts({container_attr})] enum E {{ {ident} }}");
        let exp: proc_macro2::TokenStream = expand(&src)?.parse().map_err(|_| "lex".to_owned())?;
        let mut hits = vec![];
        lits_after(exp, "\"\\\"{}\\\"\"", &mut hits);
        match hits.first() {
            Some(v) if !v.is_empty() => Ok(v[0].clone()),
            _ => Err("harness: variant format call not found".to_owned()),
        }
    }

    pub fn inflect(rule: &str, pos: &str, ident: &str) -> Result<String, String> {
        let attr = format!("rename_all = \"{rule}\"");
        match pos {
            "field" => field_name(&attr, "", ident).map(|n| unquote(&n)),
            _ => variant_name(&attr, ident),
        }
    }

    pub fn raw_name(s: &str) -> Result<String, String> {
        let lit = syn::LitStr::new(s, proc_macro2::Span::call_site()).to_token_stream().to_string();
        field_name("", &format!("rename = {lit}"), "f")
    }

    pub fn docs(texts: &[String]) -> Result<String, String> {
        let mut src = String::new();
        for t in texts {
            let lit = syn::LitStr::new(t, proc_macro2::Span::call_site()).to_token_stream().to_string();
            src.push_str(&format!("#[doc = {lit}] "));
        }
        src.push_str("struct S;");
        let exp: proc_macro2::TokenStream = expand(&src)?.parse().map_err(|_| "lex".to_owned())?;
        // const DOCS : Option < & 'static str > = Some ("...") ;
        let toks: Vec<proc_macro2::TokenTree> = exp.into_iter().collect();
        fn walk(toks: Vec<proc_macro2::TokenTree>, found: &mut Option<String>) {
            let mut seen_docs = false;
            for t in toks {
                match t {
                    proc_macro2::TokenTree::Ident(i) if i == "DOCS" => seen_docs = true,
                    proc_macro2::TokenTree::Punct(p) if p.as_char() == ';' => seen_docs = false,
                    proc_macro2::TokenTree::Group(g) => {
                        if seen_docs && found.is_none() {
                            for x in g.stream() {
                                if let proc_macro2::TokenTree::Literal(l) = x {
                                    if let Ok(ls) = syn::parse_str::<syn::LitStr>(&l.to_string()) {
                                        *found = Some(ls.value());
                                    }
                                }
                            }
                        } else {
                            walk(g.stream().into_iter().collect(), found);
                        }
                    }
                    _ => (),
                }
            }
        }
        let mut found = None;
        walk(toks, &mut found);
        Ok(found.unwrap_or_default())
    }

    pub fn summary_struct(a: &StructAttr) -> String {
        use crate::attr::ContainerAttr;
        let mut concrete: Vec<String> = a
            .concrete
            .iter()
            .map(|(k, v)| format!("{k}={}", v.to_token_stream()))
            .collect();
        concrete.sort();
        format!(
            "crate={} as={} type={} rename_all={} rename={} export_to={} export={} tag={} concrete=[{}] bound={} optional_fields={}",
            a.crate_rename().to_token_stream(),
            opt_tokens(&a.type_as),
            opt_str(&a.type_override),
            opt_infl(&a.rename_all),
            opt_tokens(&a.rename),
            opt_tokens(&a.export_to),
            a.export,
            opt_str(&a.tag),
            concrete.join(";"),
            match &a.bound {
                None => "-".to_owned(),
                Some(b) => format!("[{}]", b.iter().map(|x| x.to_token_stream().to_string()).collect::<Vec<_>>().join(";")),
            },
            optional(&a.optional_fields),
        )
    }

    pub fn summary_enum(a: &EnumAttr) -> String {
        let mut concrete: Vec<String> = a
            .concrete
            .iter()
            .map(|(k, v)| format!("{k}={}", v.to_token_stream()))
            .collect();
        concrete.sort();
        format!(
            "crate={} as={} type={} rename_all={} rename_all_fields={} rename={} export_to={} export={} tag={} untagged={} content={} concrete=[{}] bound={}",
            a.crate_rename().to_token_stream(),
            opt_tokens(&a.type_as),
            opt_str(&a.type_override),
            opt_infl(&a.rename_all),
            opt_infl(&a.rename_all_fields),
            opt_tokens(&a.rename),
            opt_tokens(&a.export_to),
            a.export,
            opt_str(&a.tag),
            a.untagged,
            opt_str(&a.content),
            concrete.join(";"),
            match &a.bound {
                None => "-".to_owned(),
                Some(b) => format!("[{}]", b.iter().map(|x| x.to_token_stream().to_string()).collect::<Vec<_>>().join(";")),
            },
        )
    }

    pub fn summary_variant(a: &VariantAttr) -> String {
        format!(
            "as={} type={} rename={} rename_all={} inline={} skip={} untagged={}",
            opt_tokens(&a.type_as),
            opt_str(&a.type_override),
            opt_tokens(&a.rename),
            opt_infl(&a.rename_all),
            a.inline,
            a.skip,
            a.untagged,
        )
    }

    pub fn summary_field(a: &FieldAttr) -> String {
        let probe: syn::Type = syn::parse_quote!(__Probe);
        let t = a.type_as(&probe).to_token_stream().to_string();
        format!(
            "as={} type={} rename={} inline={} skip={} optional={} flatten={} docs={:?} with={}",
            if t == "__Probe" { "-".to_owned() } else { format!("[{t}]") },
            opt_str(&a.type_override),
            opt_str(&a.rename),
            a.inline,
            a.skip,
            optional(&a.optional),
            a.flatten,
            a.docs,
            a.using_serde_with,
        )
    }

    /// parse one attribute argument list with the ts or the serde table of the given position
    pub fn parse_list(pos: &str, which: &str, tokens: &str) -> Result<String, String> {
        let e = |e: syn::Error| e.to_string();
        Ok(match (pos, which) {
            ("struct", "ts") => summary_struct(&syn::parse_str::<StructAttr>(tokens).map_err(e)?),
            ("struct", _) => summary_struct(&syn::parse_str::<Serde<StructAttr>>(tokens).map_err(e)?.0),
            ("enum", "ts") => summary_enum(&syn::parse_str::<EnumAttr>(tokens).map_err(e)?),
            ("enum", _) => summary_enum(&syn::parse_str::<Serde<EnumAttr>>(tokens).map_err(e)?.0),
            ("variant", "ts") => summary_variant(&syn::parse_str::<VariantAttr>(tokens).map_err(e)?),
            ("variant", _) => summary_variant(&syn::parse_str::<Serde<VariantAttr>>(tokens).map_err(e)?.0),
            ("field", "ts") => summary_field(&syn::parse_str::<FieldAttr>(tokens).map_err(e)?),
            (_, _) => summary_field(&syn::parse_str::<Serde<FieldAttr>>(tokens).map_err(e)?.0),
        })
    }

    /// `attrs` is the source text of outer attributes, e.g. `#[ts(rename = "a")] #[serde(skip)]`
    pub fn from_attrs(pos: &str, attrs: &str) -> Result<String, String> {
        let attrs = syn::Attribute::parse_outer.parse_str(attrs).map_err(|e| format!("harness: {e}"))?;
        let e = |e: syn::Error| e.to_string();
        Ok(match pos {
            "struct" => summary_struct(&StructAttr::from_attrs(&attrs).map_err(e)?),
            "enum" => summary_enum(&EnumAttr::from_attrs(&attrs).map_err(e)?),
            "variant" => summary_variant(&VariantAttr::from_attrs(&attrs).map_err(e)?),
            _ => summary_field(&FieldAttr::from_attrs(&attrs).map_err(e)?),
        })
    }

    /// the derive's pipeline without the proc_macro bridge
    pub fn expand(item: &str) -> Result<String, String> {
        let input: syn::Item = syn::parse_str(item).map_err(|e| format!("harness: {e}"))?;
        let (ts, ident, generics) = match input {
            syn::Item::Struct(s) => (crate::types::struct_def(&s).map_err(|e| e.to_string())?, s.ident, s.generics),
            syn::Item::Enum(e) => (crate::types::enum_def(&e).map_err(|e| e.to_string())?, e.ident, e.generics),
            _ => return Err("unsupported item".to_owned()),
        };
        Ok(ts.into_impl(ident, generics).to_string())
    }
}
