use ts_rs::verif_replay as r;

fn dump(root: &std::path::Path, rel: &str, out: &mut Vec<String>) {
    let mut entries: Vec<_> = match std::fs::read_dir(root) {
        Ok(e) => e.filter_map(|x| x.ok()).collect(),
        Err(_) => return,
    };
    entries.sort_by_key(|e| e.file_name());
    for e in entries {
        let name = e.file_name().to_string_lossy().into_owned();
        let relp = if rel.is_empty() { name.clone() } else { format!("{rel}/{name}") };
        let p = e.path();
        if p.is_dir() {
            out.push(format!("{relp}/"));
            out.push(String::new());
            dump(&p, &relp, out);
        } else {
            out.push(relp);
            out.push(std::fs::read_to_string(&p).unwrap_or_else(|_| "<unreadable>".to_owned()));
        }
    }
}

fn unit(r: Result<(), String>) -> Vec<String> {
    res(r.map(|_| String::new()))
}

fn handle(f: &[String]) -> Vec<String> {
    match f[0].as_str() {
        "merge" => res(Ok(r::merge(f[1].clone(), f[2].clone()))),
        "import_path" => res(r::import_path(&f[1], &f[2])),
        "absolute" => res(r::absolute(&f[1])),
        "diff_paths" => res(r::diff_paths(&f[1], &f[2])),
        "export_and_merge" => unit(r::export_and_merge(&f[1], &f[2], &f[3])),
        "reset" => {
            r::registry_reset();
            res(Ok(String::new()))
        }
        "regdump" => res(Ok(r::registry_dump())),
        "cfg" => {
            // cfg i name decl out(- = none) deps(comma separated)
            let i: usize = f[1].parse().unwrap();
            r::set_cfg(
                i,
                r::TypeCfg {
                    name: f[2].clone(),
                    decl: f[3].clone(),
                    out: if f[4] == "-" { None } else { Some(f[4].clone()) },
                    deps: f[5].split(',').filter(|x| !x.is_empty()).map(|x| x.parse().unwrap()).collect(),
                },
            );
            res(Ok(String::new()))
        }
        "export" => unit(r::export(f[1].parse().unwrap())),
        "export_all" => unit(r::export_all(f[1].parse().unwrap())),
        "export_all_to" => unit(r::export_all_to(f[1].parse().unwrap(), &f[2])),
        "export_to_string" => res(r::export_to_string(f[1].parse().unwrap())),
        "default_output_path" => res(Ok(r::default_output_path(f[1].parse().unwrap()).unwrap_or_else(|| "-".to_owned()))),
        "setenv" => {
            std::env::set_var(&f[1], &f[2]);
            res(Ok(String::new()))
        }
        "unsetenv" => {
            std::env::remove_var(&f[1]);
            res(Ok(String::new()))
        }
        "chdir" => res(std::env::set_current_dir(&f[1]).map(|_| String::new()).map_err(|e| e.to_string())),
        "mkdir" => res(std::fs::create_dir_all(&f[1]).map(|_| String::new()).map_err(|e| e.to_string())),
        "symlink" => res(std::os::unix::fs::symlink(&f[1], &f[2]).map(|_| String::new()).map_err(|e| e.to_string())),
        "mkfile" => res(std::fs::write(&f[1], &f[2]).map(|_| String::new()).map_err(|e| e.to_string())),
        "rm" => {
            let p = std::path::Path::new(&f[1]);
            let r = if p.is_dir() { std::fs::remove_dir_all(p) } else { std::fs::remove_file(p) };
            res(r.map(|_| String::new()).map_err(|e| e.to_string()))
        }
        "fsdump" => {
            let mut v = vec!["ok".to_owned()];
            dump(std::path::Path::new(&f[1]), "", &mut v);
            v
        }
        _ => vec!["err".to_owned(), "harness: unknown command".to_owned()],
    }
}
