"""Tier B plumbing: executing derive-generated and built-in `impl TS` code with ABSTRACT type parameters.

An impl table maps self-type patterns (with their type parameters as variables) to the MIR functions of the impl:
  * the built-in impls of ts-rs/src/lib.rs (see props/c12.py),
  * the impls the real derive generated for the corpus crate (corpus/lib.rs, one item per line, so the derive's span
    `<impl at src/lib.rs:L:10: L:12>` identifies the item), including the dummy parameter types nested in decl().
`<X as TS>::m` is resolved by unification; an abstract parameter's methods are holes (or whatever the harness plugs in)."""
from .common import *
from . import c12
from mirsym.interp import Hole

G = {}


def setup(features=()):
    c12.setup()
    fns = dict(c12.G['fns'])
    cmir = build.corpus_mir(features)
    cfns = build.parsed(cmir)
    for k, v in cfns.items():
        fns[k] = v            # corpus symbols (`<impl at src/lib.rs:..>`) do not collide with ts-rs symbols (`<impl at ts-rs/src/lib.rs:..>`)
    G['fns'] = fns
    G['enums'] = c12.G['enums']
    G['structs'] = c12.G['structs']
    G['limit'] = c12.G['limit']
    G['builtin'] = c12.G['impls']
    G['corpus'] = corpus_table(cfns)
    G['cfns'] = cfns


def corpus_table(cfns):
    """{type name: dict(line, generics [type params], all_params [(kind, name)], methods {m: key}, dummies {param: {m: key}}, concrete {p: ty}, src)}"""
    src = open(os.path.join(build.VERIF, 'corpus', 'lib.rs')).read().split('\n')
    out = {}
    for ln, text in enumerate(src, 1):
        m = re.search(r'\b(struct|enum)\s+(?:r#)?(\w+)\s*(<(.*?)>)?\s*(\(|\{|;|where)', text)
        if not m or 'derive(TS)' not in text:
            continue
        name = m.group(2)
        params, gens = [], []
        if m.group(4):
            for p in mirparse.split_top(m.group(4)):
                p = p.strip()
                if p.startswith("'"):
                    params.append(('lifetime', p.split(':')[0].strip()))
                elif p.startswith('const '):
                    params.append(('const', p[6:].split(':')[0].strip()))
                else:
                    nm = re.match(r'^(\w+)', p).group(1)
                    dflt = p.split('=', 1)[1].strip() if '=' in p else None
                    params.append(('type', nm, dflt))
                    gens.append(nm)
        conc = {}
        mc = re.search(r'concrete\((.*?)\)\)\]', text)
        if mc:
            for part in mirparse.split_top(mc.group(1)):
                k, v = part.split('=', 1)
                conc[k.strip()] = v.strip()
        meths, dummies_raw = {}, {}
        for k, f in cfns.items():
            mm = re.match(r'^<impl at src/lib\.rs:%d:\d+: %d:\d+>::(\w+)$' % (ln, ln), k)
            if mm and hasattr(f, 'blocks'):
                meths[mm.group(1)] = k
            md = re.match(r'^<impl at src/lib\.rs:%d:\d+: %d:\d+>::decl::<impl at src/lib\.rs:%d:\d+: %d:\d+>::(name|inline|inline_flattened|decl|decl_concrete)(#(\d+))?$'
                          % (ln, ln, ln, ln), k)
            if md and hasattr(f, 'blocks'):
                dummies_raw.setdefault(int(md.group(3) or 0), {})[md.group(1)] = k
        free = [g for g in gens if g not in conc]
        dummies = {p: dummies_raw.get(i, {}) for i, p in enumerate(free)}
        out[name] = dict(line=ln, generics=gens, params=params, methods=meths, dummies=dummies, concrete=conc, src=text.strip(), free=free)
    return out


def strip_lifetimes(t):
    t = re.sub(r"&'\w+\s+", '&', t)
    t = re.sub(r"<'\w+,\s*", '<', t)
    t = re.sub(r",\s*'\w+", '', t)
    t = re.sub(r"<'\w+>", '', t)
    return t.strip()


class Resolver:
    """installs the `<X as TS>::m` stub on a machine"""
    RX = re.compile(r'^<(.+) as (?:crate::|::ts_rs::|ts_rs::|\$crate::)?TS>::(\w+)(?:::<(.*)>)?$')
    DUMMY = re.compile(r'^<(\w+)<.*> as (?:::ts_rs::|ts_rs::)?TS>::decl::(\w+)$')

    def __init__(self, abstract, custom=None, n_value=3, sym=None):
        self.abstract = set(abstract)          # type parameter names left abstract
        self.custom = custom or {}             # {(param, method): fn(machine) -> value}
        self.n_value = n_value
        self.sym = sym or {}                   # {'sym_a': char list} -- values of the corpus' symbolic string expressions
        self.log = []
        self.current_item = None               # corpus item whose decl() is executing (bare dummy names refer to it)
        self.depth = 0                         # nesting of impl bodies being executed (0 = called by the harness or by the item itself)
        self.direct = []                       # [(type text, method)] calls made by the outermost body, directly or through built-in
                                               # container impls (not from inside another corpus item's body)
        self.stack = []                        # kinds of the impl bodies being executed: 'corpus' | 'builtin' | 'dummy'

    def install(self, m):
        m.stubs.append((self.RX, self.method))
        m.stubs.append((re.compile(r'^<impl (::ts_rs::|ts_rs::|crate::)?TypeVisitor as (::ts_rs::|ts_rs::|crate::)?TypeVisitor>::visit::<'), self.visit))
        m.stubs.append((re.compile(r'^sym_(a|b)$'), lambda mm, c, a: RStr(list(self.sym[c])) if c in self.sym else RStr([Hole(c)])))
        m.type_rewrites = [(re.compile(r'\$crate::'), 'crate::')]
        prev = m.const_hook

        def hook(mm, text):
            if re.fullmatch(r'\d+(_?usize)?', text.strip()):
                return int(re.match(r'\d+', text.strip()).group(0))        # a const generic argument substituted for its parameter
            if text in ('N',) and self.n_value is not None:
                return self.n_value(mm) if callable(self.n_value) else self.n_value
            if text == 'ARRAY_TUPLE_LIMIT':
                return G['limit']
            q = re.match(r'^<(.+) as (?:crate::|::ts_rs::|ts_rs::)?TS>::(IS_OPTION|DOCS)$', text)
            if q:
                ty = strip_lifetimes(q.group(1))
                if q.group(2) == 'IS_OPTION':
                    if ty in self.abstract:
                        return z3.Bool(f'{ty}.IS_OPTION')
                    return ty.startswith('Option<') or ty.startswith('std::option::Option<')
            return prev(mm, text) if prev else None
        m.const_hook = hook

    def visit(self, m, callee, args):
        self.log.append(('visit', strip_lifetimes(re.search(r'::visit::<(.*)>$', callee).group(1))))
        return ()

    def hole(self, ty, meth, m):
        f = self.custom.get((ty, meth))
        if f is not None:
            return f(m)
        if meth in ('name', 'inline', 'inline_flattened', 'ident', 'decl', 'decl_concrete'):
            return RStr([Hole(f'{ty}.{meth}')])
        if meth in ('visit_generics', 'visit_dependencies'):
            self.log.append(('forward_' + meth, ty))
            return ()
        if meth == 'output_path':
            return Enum(0, [], 'None')
        raise Unsupported(f'abstract <{ty} as TS>::{meth}')

    def method(self, m, callee, args):
        q = self.RX.match(callee)
        ty, meth = strip_lifetimes(q.group(1)), q.group(2)
        ty = re.sub(r'\b(?:std::num::)?NonZero<([ui])(\d+|size)>', lambda a: 'NonZero' + a.group(1).upper() + a.group(2), ty)
        ty = re.sub(r'\br#(?=\w)', '', ty)        # raw identifiers name the same item
        if self.depth >= 1 and 'corpus' not in self.stack[1:] and 'dummy' not in self.stack[1:]:
            self.direct.append((ty, meth))
        if ty in self.abstract:
            return self.hole(ty, meth, m)
        oi = re.match(r'^<(\w+) as (?:crate::|::ts_rs::|ts_rs::)?TS>::OptionInnerType$', ty)
        if oi and oi.group(1) in self.abstract:
            # the associated type of an abstract parameter: another abstract type (equal to the parameter itself unless it is an Option)
            return self.hole(oi.group(1) + '.OptionInner', meth, m)
        d = self.DUMMY.match(ty)
        if d and d.group(1) in G['corpus']:
            item = G['corpus'][d.group(1)]
            fn = item['dummies'].get(d.group(2), {}).get(meth)
            if fn is None:
                raise Unsupported(f'dummy impl method not found: {callee}')
            return self.run(m, fn, {}, args, kind='dummy')
        # corpus impls
        mh = re.match(r'^(\w+)(?:<(.*)>)?$', ty)
        if mh and mh.group(1) in G['corpus']:
            item = G['corpus'][mh.group(1)]
            targs = mirparse.split_top(mh.group(2)) if mh.group(2) else []
            targs = [a for a in targs if not a.strip().startswith("'")]
            names = [p[1] for p in item['params'] if p[0] != 'lifetime']
            sub = {}
            for p, a in zip(names, targs):
                sub[p] = a.strip()
            for p in item['params']:
                if p[0] == 'type' and p[1] not in sub and p[2]:
                    sub[p[1]] = p[2]
            fn = item['methods'].get(meth)
            if fn is None:
                if f'TS::{meth}' in m.fns:
                    return self.run(m, f'TS::{meth}', {'Self': ty}, args, kind='corpus')
                raise Unsupported(f'no method {meth} for corpus type {ty}')
            rewrite = None
            if meth == 'decl' and item['free']:
                # inside decl() the local dummy structs shadow the type parameters of the same name; rustc prints them sometimes as
                # `<X<..> as TS>::decl::P` and sometimes as a bare `P`: canonicalise every such mention to the qualified form
                gen_text = ', '.join(p_[1] for p_ in item['params'] if p_[0] != 'lifetime')
                qual = lambda p_: f'<{mh.group(1)}<{gen_text}> as TS>::decl::{p_}'
                rx_q = re.compile(r'<' + mh.group(1) + r'<[^<>]*> as (?:::ts_rs::|ts_rs::)?TS>::decl::(\w+)')
                rx_b = re.compile(r'(?<!\x02)\b(' + '|'.join(map(re.escape, item['free'])) + r')\b(?!\x03)')

                def rewrite(text, rx_q=rx_q, rx_b=rx_b, qual=qual):
                    text = rx_q.sub(lambda a: '\x02' + a.group(1) + '\x03', text)
                    text = rx_b.sub(lambda a: '\x02' + a.group(1) + '\x03', text)
                    return re.sub('\x02(\\w+)\x03', lambda a: qual(a.group(1)), text)
            return self.run(m, fn, sub if rewrite is None else {}, args, rewrite, kind='corpus')
        # built-in impls
        for self_ty, gens, meths, kind, shadow in G['builtin']:
            sub = c12.type_unify(self_ty, ty, set(gens))
            if sub is not None and meth in meths:
                return self.run(m, meths[meth], sub, args)
        for self_ty, gens, meths, kind, shadow in G['builtin']:
            if c12.type_unify(self_ty, ty, set(gens)) is not None and f'TS::{meth}' in m.fns:
                return self.run(m, f'TS::{meth}', {'Self': ty}, args)
        raise Unsupported(f'no impl found for {callee}')

    def run(self, m, fn_key, sub, args, rewrite=None, kind='builtin'):
        saved = getattr(m, 'cur_subst', {})
        saved_fr = m.frame_rewrite
        m.cur_subst = dict(sub)
        m.frame_rewrite = rewrite
        self.depth += 1
        self.stack.append(kind)
        try:
            return m.exec_fn(m.fns[fn_key], args)
        finally:
            self.stack.pop()
            self.depth -= 1
            m.cur_subst = saved
            m.frame_rewrite = saved_fr


def machine(ctx, resolver):
    m = Machine(G['fns'], MODELS, ctx, G['enums'])
    m.struct_fields = G['structs']
    resolver.install(m)
    return m


def call_method(m, resolver, type_text, meth, args=()):
    return m.call(f'<{type_text} as TS>::{meth}', list(args))


def show_rope(cs):
    return ''.join(chr(c) if isinstance(c, int) else ('{' + c.label + '}' if isinstance(c, Hole) else '?') for c in cs)
