"""C14 -- inline, flatten and `as` change presentation, never meaning.

Executed symbolically (real MIR, tier B): the derive-generated inline() / inline_flattened() / decl_concrete() of corpus items that
present the same field type by name, inlined, flattened and through `as`, with the type arguments abstract. For flattening the
flattened type's text is a SYMBOLIC STRING (`{ .. }` object bodies and parenthesised unions with solver-chosen bytes), so the real
textual rewrites -- replace(" } & { ", " "), the parenthesis unwrapping of a lone flattened member -- run on every such text and
z3 decides whether the result is the structural merge.
"""
from .common import *
from . import tyres, c07
from .tyres import Resolver, show_rope
from mirsym.interp import Hole

G = tyres.G


def o(t):
    return [ord(c) for c in t]


def rope_of(ty, meth, abstract, custom=None, ex=None):
    ex = ex or Explorer()

    def h(ctx):
        r = Resolver(abstract, custom)
        m = tyres.machine(ctx, r)
        try:
            return ('ok', list(m.call(f'<{ty} as TS>::{meth}', []).cs), sorted(m.calls))
        except Panic as e:
            return ('panic', str(e), sorted(m.calls))
    return ex, ex.run(h)


# ------------------------------------------------------------------------------------------ part 1: presentation equations on ropes
def equations():
    """[(label, violated?, details)] -- straight-line equalities between presentations, for all type arguments"""
    out = []

    def one(ty, meth, abstract):
        ex, res = rope_of(ty, meth, abstract)
        if len(res) != 1:
            raise Unsupported(f'{ty}::{meth}: {len(res)} paths')
        return res[0][1]

    def swap(rope, frm, to):
        return [Hole(c.label.replace('.' + frm, '.' + to)) if isinstance(c, Hole) and c.label.endswith('.' + frm) else c for c in rope]

    def eq(label, a, b, native=None):
        bad = a[0] != 'ok' or b[0] != 'ok' or a[1] != b[1]
        out.append((label, bad, {'left': show_rope(a[1]) if a[0] == 'ok' else a[1], 'right': show_rope(b[1]) if b[0] == 'ok' else b[1]}, native))

    p1, p2 = one('P1<T>', 'inline', ['T']), one('P2<T>', 'inline', ['T'])
    eq('inlining a field = referring to it by name, with the name replaced by the inline form (P2 vs P1)',
       p2, ('ok', swap(p1[1], 'name', 'inline')) if p1[0] == 'ok' else p1,
       native=lambda n: (n['P2', 'inline'], n['P1', 'inline'].replace('Arg1', '{ q: number, }')))
    eq('`as = "Vec<T>"` on a field = the field typed Vec<T> (P6 vs P7)', one('P6<T>', 'inline', ['T']), one('P7<T>', 'inline', ['T']),
       native=lambda n: (n['P6', 'inline'], n['P7', 'inline']))
    eq('`as = "Vec<T>"` on a variant = the variant holding Vec<T> (P9 vs P10)', one('P9<T>', 'inline', ['T']), one('P10<T>', 'inline', ['T']),
       native=lambda n: (n['P9', 'inline'], n['P10', 'inline']))
    eq('`as = "Vec<T>"` on the container = the inline form of Vec<T> (P11)', one('P11<T>', 'inline', ['T']), one('Vec<T>', 'inline', ['T']))
    for name, item in G['corpus'].items():
        ty = c07.type_text(name, item)
        inl, dc, idt = one(ty, 'inline', item['generics']), one(ty, 'decl_concrete', item['generics']), one(ty, 'ident', item['generics'])
        if inl[0] == 'ok' and idt[0] == 'ok':
            eq(f'decl_concrete() = `type N = inline();` ({name})', dc, ('ok', o('type ') + idt[1] + o(' = ') + inl[1] + o(';')),
               native=(lambda nm: (lambda n: (n[nm, 'decl_concrete'], 'type ' + n[nm, 'decl_concrete'].split(' ')[1] + ' = ' + n[nm, 'inline'] + ';')))(name))
    # nested: an inlined generic struct inside a struct, flattened generic struct (G6): the body of Inner<T> appears verbatim
    inner = one('Inner<T>', 'inline', ['T'])
    g6 = one('G6<T>', 'inline', ['T'])
    if inner[0] == 'ok' and g6[0] == 'ok':
        body = inner[1][2:-2]           # `{ ` .. ` }`
        want = o('{ k: boolean, a: ') + inner[1] + o(', ') + body + o(' }')
        eq('inline + flatten of the same generic struct: `a: <inline>` and the merged properties (G6)', g6, ('ok', want))
    # flattened derive-generated enums next to flattened structs: a union stays one parenthesised unit, objects are merged
    en1, en2 = one('En1<T>', 'inline', ['T']), one('En2<T>', 'inline', ['T'])
    if all(x[0] == 'ok' for x in (en1, en2, inner)):
        ibody = inner[1][2:-2]
        eq('own field + flattened single-variant enum + flattened struct (PF1)', one('PF1<T>', 'inline', ['T']),
           ('ok', o('{ id: boolean, } & (') + en1[1] + o(') & ') + inner[1]),
           native=lambda n: (n['PF1', 'inline'], '{ id: boolean, } & (' + n['En1', 'inline'] + ') & ' + n['Inner', 'inline']))
        eq('flattened two-variant enum + flattened struct (PF2)', one('PF2<T>', 'inline', ['T']), ('ok', o('(') + en2[1] + o(') & ') + inner[1]),
           native=lambda n: (n['PF2', 'inline'], '(' + n['En2', 'inline'] + ') & ' + n['Inner', 'inline']))
        eq('own field + flattened struct + flattened enum (PF3)', one('PF3<T>', 'inline', ['T']),
           ('ok', o('{ id: boolean, ') + ibody + o(' } & (') + en1[1] + o(')')),
           native=lambda n: (n['PF3', 'inline'], '{ id: boolean, ' + n['Inner', 'inline'][2:-2] + ' } & (' + n['En1', 'inline'] + ')'))
        eq('inlined enum / struct fields and a by-name generic enum (PF4)', one('PF4<T>', 'inline', ['T']),
           ('ok', o('{ e: ') + en1[1] + o(', s: ') + inner[1] + o(', n: En2<') + [Hole('T.name')] + o('>, }')))
    # a struct with a container-level tag, flattened: the tag is one of its properties and travels with them
    tg1 = one('Tg1<T>', 'inline', ['T'])
    if tg1[0] == 'ok':
        tbody = tg1[1][2:-2]
        eq('own field + flattened tagged struct: the tag property is merged with the others (PF5)', one('PF5<T>', 'inline', ['T']),
           ('ok', o('{ id: boolean, ') + tbody + o(' }')),
           native=lambda n: (n['PF5', 'inline'], '{ id: boolean, ' + n['Tg1', 'inline'][2:-2] + ' }'))
        eq('a lone flattened tagged struct is that struct (PF6)', one('PF6<T>', 'inline', ['T']), tg1,
           native=lambda n: (n['PF6', 'inline'], n['Tg1', 'inline']))
    # systematic form of "inlining = referring by name": a struct with inlined fields equals its by-name twin after replacing, for
    # every field type F, the text name(F) by inline(F) (wrappers Option / Vec / Box distribute over the replacement)
    def replace_rope(rope, sub, new):
        out_, i = [], 0
        while i < len(rope):
            if sub and rope[i:i + len(sub)] == sub:
                out_ += new
                i += len(sub)
            else:
                out_.append(rope[i])
                i += 1
        return out_

    def inline_twin(label, inl_ty, named_ty, field_types, natives):
        a, b = one(inl_ty, 'inline', ['T']), one(named_ty, 'inline', ['T'])
        if a[0] != 'ok' or b[0] != 'ok':
            eq(label, a, b)
            return
        want = b[1]
        for ft in field_types:
            nm, il = one(ft, 'name', ['T']), one(ft, 'inline', ['T'])
            if nm[0] != 'ok' or il[0] != 'ok':
                eq(label + f' [{ft}]', nm, il)
                return
            want = replace_rope(want, nm[1], il[1])

        def nat(n, inl_ty=inl_ty, named_ty=named_ty, natives=natives):
            w = n[named_ty.split('<')[0], 'inline']
            for short in natives:
                w = w.replace(n[short, 'name'], n[short, 'inline'])
            return (n[inl_ty.split('<')[0], 'inline'], w)
        eq(label, a, ('ok', want), native=nat)
    inline_twin('inlined Option/Vec/Box of a generic struct = the by-name form with the struct\'s name replaced by its inline form (IO1 vs NO1)',
                'IO1<T>', 'NO1<T>', ['Inner<T>'], ['Inner'])
    inline_twin('inlined enums of every representation, newtype and tuple struct = the by-name form with names replaced (IE1 vs NE1)',
                'IE1<T>', 'NE1<T>', ['EU<T>', 'ET<T>', 'EA<T>', 'NT1<T>', 'TS1<T>'], ['EU', 'ET', 'EA', 'NT1', 'TS1'])
    # nested flatten, flatten next to rename_all / skip / optional: the flattened struct's properties arrive unchanged
    if inner[0] == 'ok':
        ib = inner[1][2:-2]
        eq('flatten of a struct (FL1)', one('FL1<T>', 'inline', ['T']), ('ok', o('{ q: boolean, ') + ib + o(' }')),
           native=lambda n: (n['FL1', 'inline'], '{ q: boolean, ' + n['Inner', 'inline'][2:-2] + ' }'))
        eq('flatten of a struct that itself flattens (FL2)', one('FL2<T>', 'inline', ['T']), ('ok', o('{ r: boolean, q: boolean, ') + ib + o(' }')),
           native=lambda n: (n['FL2', 'inline'], '{ r: boolean, ' + n['FL1', 'inline'][2:-2] + ' }'))
        eq('rename_all renames own fields, not the flattened struct\'s (FL3)', one('FL3<T>', 'inline', ['T']), ('ok', o('{ AA: boolean, ') + ib + o(' }')),
           native=lambda n: (n['FL3', 'inline'], '{ AA: boolean, ' + n['Inner', 'inline'][2:-2] + ' }'))
        eq('skip / optional next to a flattened struct (FL4)', one('FL4<T>', 'inline', ['T']),
           ('ok', o('{ o?: ') + [Hole('T.name')] + o(', ') + ib + o(' }')),
           native=lambda n: (n['FL4', 'inline'], '{ o?: Arg1, ' + n['Inner', 'inline'][2:-2] + ' }'))
    et = one('ET<T>', 'inline', ['T'])
    if et[0] == 'ok':
        eq('own field + flattened internally tagged enum (FE1)', one('FE1<T>', 'inline', ['T']), ('ok', o('{ k: boolean, } & (') + et[1] + o(')')),
           native=lambda n: (n['FE1', 'inline'], '{ k: boolean, } & (' + n['ET', 'inline'] + ')'))
    # ---- semantic equations: both sides are PARSED as TypeScript types (`&` binds tighter than `|`), references to corpus types are
    # expanded by their own inline form, and the normal forms (props/tsparse.py) are compared.  `$T` is the abstract parameter.
    from . import tsparse as TP
    cache = {}

    def inline_ast(name):
        if name not in cache:
            item = G['corpus'][name]
            r = one(c07.type_text(name, item), 'inline', item['generics'])
            cache[name] = (TP.parse(r[1]), [p_[1] for p_ in item['params'] if p_[0] == 'type']) if r[0] == 'ok' else None
        return cache[name]

    def expand(name, args):
        return inline_ast(name) if name in G['corpus'] else None

    def native_side(lhs_name, rhs_text):
        def nat(n):
            def nexp(name, args):
                return (TP.parse([ord(c) for c in n[name, 'inline']]), []) if (name, 'inline') in n and name in G['corpus'] else None
            l_ = TP.normalize(TP.parse([ord(c) for c in n[lhs_name, 'inline']]), nexp)
            r_ = TP.normalize(TP.parse([ord(c) for c in re.sub(r'\$[A-Z]\w*', 'Arg1', rhs_text)]), nexp)
            return TP.show(l_), TP.show(r_)
        return nat
    SEM = [('P2', 'P1<$T>'), ('P6', 'P7<$T>'), ('P9', 'P10<$T>'), ('P11', 'Array<$T>'), ('IO1', 'NO1<$T>'), ('IE1', 'NE1<$T>'),
           ('G6', '{ k: boolean, a: Inner<$T> } & Inner<$T>'), ('G10', '{ a: $T, b: $T | null, c: Array<$T> }'),
           ('P3', '{ a: boolean } & $T'), ('P4', '$T'), ('P8', '{ a: boolean } & $T & Inner<$T>'),
           ('FL1', '{ q: boolean } & Inner<$T>'), ('FL2', '{ r: boolean } & FL1<$T>'), ('FL3', '{ AA: boolean } & Inner<$T>'),
           ('FL4', '{ o?: $T } & Inner<$T>'), ('FE1', '{ k: boolean } & ET<$T>'),
           ('PF1', '{ id: boolean } & En1<$T> & Inner<$T>'), ('PF2', 'En2<$T> & Inner<$T>'), ('PF3', '{ id: boolean } & Inner<$T> & En1<$T>'),
           ('PF4', '{ e: En1<$T>, s: Inner<$T>, n: En2<$T> }'), ('PF5', '{ id: boolean } & Tg1<$T>'), ('PF6', 'Tg1<$T>'),
           ('IT1', 'IT2<$T>'), ('IA1', 'IA2<$T>'), ('IX1', 'IX2<$T>'), ('IU1', 'IU2<$T>'),
           ('S1', '[$T, Inner<$T>]'), ('S2', '{ a?: $T | null, b?: Array<$T>, c: $T | null }'), ('S3', '{ a?: $T | null, b: Array<$T> }'),
           ('S4', '{ "k": "A", v: $T } | $T | { "k": "D" } | { "k": "E" }'),
           ('S9', '{ a: $T | null, b?: $T, c: T | null, z: $T }'),
           ('S11', '{ "t": "foo_bar", "c": $T } | { "t": "baz_qux", "c": { qu_ux: $T } } | { "t": "X", "c": [$T, $T] }'),
           ('S12', '$T | { v: $T } | null | [$T, $T]'), ('DD1', 'DN1<$T>'), ('DD2', 'DN2<$T>'), ('DD3', 'DN3<$T>'), ('DD4', 'DN4<$T>'),
           ('IO2', 'NO2<$T>'), ('OI1', 'ON1<$T>'), ('OI2', 'ON2<$T>'), ('OA1', 'OA2<$T>'), ('OA3', 'OA4<$T>'), ('FP1', '{ k: boolean } & FS1<$T>'), ('FP2', '{ myKey: boolean } & FS2<$T> & Inner<$T>'),
           ('FV1', '{ "t": "A", k: boolean } & Inner<$T> | { "t": "B" }'), ('FV2', '{ "t": "A", "c": { k: boolean } & Inner<$T> } | { "t": "B" }'),
           ('AT1', '[Array<$T>, $T]'), ('AT2', '$T | null'), ('IA3', 'IA4<$T>'), ('IT3', 'IT4<$T>'), ('IX3', 'IX4<$T>'), ('AE1', '$T | null'), ('TF1', '{ "t": "TF1", id: boolean } & Inner<$T>')]
    for lhs, rhs in SEM:
        if lhs not in G['corpus']:
            continue
        try:
            li = inline_ast(lhs)
            if li is None:
                eq(f'semantic: {lhs} = {rhs}', one(c07.type_text(lhs, G['corpus'][lhs]), 'inline', G['corpus'][lhs]['generics']), ('ok', []))
                continue
            L = TP.normalize(li[0], expand)
            R = TP.normalize(TP.parse_text(rhs), expand)
        except TP.ParseError as e:
            out.append((f'semantic: {lhs} = {rhs}', True, {'left': f'not a well-formed TypeScript type: {e}', 'right': rhs}, native_side(lhs, rhs)))
            continue
        eq(f'semantic: {G["corpus"][lhs]["src"]} denotes {rhs}', ('ok', o(TP.show(L))), ('ok', o(TP.show(R))), native=native_side(lhs, rhs))
    return out


# ------------------------------------------------------------------------------------------ part 2: flatten with symbolic texts
ALPHA_OBJ = 'a: ,|'          # bytes of an object body (property lists; `|` for union-typed properties)
ALPHA_UNI = 'a |()&'         # bytes of a flattened member that is not a plain object (unions, intersections of unions)


def sym_text(prefix, n, alpha, ex):
    cs = [z3.BitVec(f'{prefix}{i}', CH) for i in range(n)]
    for c in cs:
        ex.solver.add(z3.Or([c == ord(x) for x in alpha]))
    return cs


def ceq(a, b):
    if is_sym(a) or is_sym(b):
        return bv(a, CH) == bv(b, CH)
    return z3.BoolVal(a == b)


def eq_lists(a, b):
    if len(a) != len(b):
        return z3.BoolVal(False)
    return z3.And([ceq(x, y) for x, y in zip(a, b)]) if a else z3.BoolVal(True)


def parens_enclose(F):
    """z3 condition: F starts with `(`, ends with `)` and these two match each other"""
    if len(F) < 2:
        return z3.BoolVal(False)
    depth = z3.IntVal(0)
    conds = [ceq(F[0], 40), ceq(F[-1], 41)]
    for i, c in enumerate(F[:-1]):
        depth = depth + z3.If(ceq(c, 40), 1, 0) - z3.If(ceq(c, 41), 1, 0)
        conds.append(depth >= 1)
    return z3.And(conds)


def trimmed(cs):
    """concrete-length trim of leading/trailing spaces is not expressible with symbolic bytes in general; the harness only
    uses texts without leading/trailing blanks inside the parentheses, and states so"""
    return cs


def flatten_cells(quick):
    cells = []
    # (item, abstract params, shapes per param, own-fields prefix)
    for n in ((1, 2, 3) if quick else (1, 2, 3, 4, 5)):
        cells.append(('P3', 'obj', n))          # own field + flattened object `{ <n bytes> }`
        cells.append(('P3', 'union', n))        # own field + flattened union `(<n bytes>)`
        cells.append(('P4', 'obj', n))          # lone flattened object
    for n in ((2, 3, 5, 7, 9) if quick else (2, 3, 4, 5, 6, 7, 8, 9, 10, 11)):
        cells.append(('P4', 'free', n))         # lone flattened member: n free bytes (parenthesised unions, intersections of them ...)
    for n in ((1, 2) if quick else (1, 2, 3)):
        cells.append(('P5', 'obj+obj', n))
        cells.append(('P5', 'obj+union', n))
        cells.append(('P8', 'obj', n))
    return cells


def explore_flatten(cell):
    item, shape, n = cell
    ex = Explorer(time_budget=G.get('time_budget'))
    out = {'violations': [], 'known_hits': {}, 'samples': [], 'obligations': 0, 'discharged': 0, 'models': set(), 'inconclusive': []}
    P = sym_text('p', n, ALPHA_UNI if shape == 'free' else ALPHA_OBJ if shape.startswith('obj') else 'a |', ex)
    Q = sym_text('q', n, 'a |' if shape == 'obj+union' else ALPHA_OBJ, ex) if item == 'P5' else []
    known_cls = z3.BoolVal(False)
    if shape == 'free':
        F = list(P)
        # a flattened member is either an object `{..}` or parenthesised / an intersection of such: first and last byte delimit it
        ex.solver.add(z3.And(ceq(F[0], 40), ceq(F[-1], 41)))
        # no blanks directly inside the delimiters (the derive never produces them for unions; keeps trim() out of the picture)
        if len(F) > 2:
            ex.solver.add(z3.Not(ceq(F[1], 32)), z3.Not(ceq(F[-2], 32)))
        custom = {('T', 'inline_flattened'): lambda m: RStr(list(F))}
        want_alts = [F, None]
        known_cls = z3.And(ceq(F[0], 40), ceq(F[-1], 41), z3.Not(parens_enclose(F)))
    else:
        obj = lambda body: o('{ ') + list(body) + o(' }')
        uni = lambda body: o('(') + list(body) + o(')')
        if shape in ('obj', 'obj+obj', 'obj+union'):
            FT = obj(P)
        else:
            FT = uni(P)
        custom = {('T', 'inline_flattened'): lambda m: RStr(list(FT))}
        if item == 'P5':
            FU = obj(Q) if shape == 'obj+obj' else uni(Q)
            custom[('U', 'inline_flattened')] = lambda m: RStr(list(FU))
    abstract = G['corpus'][item]['generics']

    def harness(ctx):
        r = Resolver(abstract, custom)
        m = tyres.machine(ctx, r)
        try:
            v = m.call(f'<{c07.type_text(item, G["corpus"][item])} as TS>::inline', [])
        except Panic as e:
            out['models'].update(m.calls)
            return ('panic', str(e))
        out['models'].update(m.calls)
        return ('ok', list(v.cs))
    try:
        for pc, (k, res) in ex.run(harness):
            out['obligations'] += 1
            if k == 'panic':
                if ex.check(pc) == z3.sat:
                    out['violations'].append({'cell': list(cell), 'why': 'inline() panics: ' + res, 'P': show(P, ex.model())})
                continue
            # structural expectation
            if shape == 'free':
                inner = F[1:-1]
                ok = z3.Or(eq_lists(res, F), z3.And(parens_enclose(F), eq_lists(res, inner)))
            elif item == 'P3':
                want = o('{ a: boolean, ') + list(P) + o(' }') if shape == 'obj' else o('{ a: boolean, } & (') + list(P) + o(')')
                ok = eq_lists(res, want)
            elif item == 'P4':
                ok = eq_lists(res, o('{ ') + list(P) + o(' }'))
            elif item == 'P5':
                want = o('{ ') + list(P) + o(' ') + list(Q) + o(' }') if shape == 'obj+obj' else o('{ ') + list(P) + o(' } & (') + list(Q) + o(')')
                ok = eq_lists(res, want)
            else:       # P8: own field, flattened T (object), flattened Inner<T> (real derive output with holes)
                want = o('{ a: boolean, ') + list(P) + o(' x: ') + [Hole('T.name')] + o(', y: ') + [Hole('T.name')] + o(' | null, }')
                ok = z3.BoolVal(len(res) == len(want) and all((isinstance(x, Hole) and x == y) or (not isinstance(x, Hole) and not isinstance(y, Hole))
                                                               for x, y in zip(res, want))) if len(res) == len(want) else z3.BoolVal(False)
                if len(res) == len(want):
                    ok = z3.And(ok, z3.And([ceq(x, y) for x, y in zip(res, want) if not isinstance(x, Hole) and not isinstance(y, Hole)]))
            r1 = ex.check(pc + [z3.Not(ok), z3.Not(known_cls)])
            if r1 == z3.sat:
                mdl = ex.model()
                out['violations'].append({'cell': list(cell), 'why': 'flattened result is not the structural merge', 'P': show(P, mdl),
                                          'Q': show(Q, mdl) if Q else None, 'engine_result': show([c for c in res if not isinstance(c, Hole)], mdl)})
                continue
            if shape == 'free' and ex.check(pc + [z3.Not(ok), known_cls]) == z3.sat:
                mdl = ex.model()
                out['known_hits'].setdefault('F06-flatten-paren-strip', {'cell': list(cell), 'P': show(P, mdl), 'engine_result': show(res, mdl)})
                continue
            out['discharged'] += 1
            if not out['samples'] and ex.check(pc) == z3.sat:
                mdl = ex.model()
                out['samples'].append({'cell': list(cell), 'flattened_text': show(P, mdl), 'parent_inline': show([c for c in res if not isinstance(c, Hole)], mdl)})
    except Unsupported as e:
        out['inconclusive'].append(f'{cell}: {e}')
    out.update(paths=ex.paths, nontrivial=ex.nontrivial, queries=ex.queries, solver_s=ex.solver_s)
    out['models'] = sorted(out['models'])
    return out


# ------------------------------------------------------------------------------------------ native confirmation
def native_flatten(item, texts):
    """compile a probe where the flattened field's type has a hand-written impl TS returning the witness text from
    inline_flattened(); print the parent's inline()"""
    import tempfile, shutil
    scratch = tempfile.mkdtemp(prefix='tsrs-verif-c14-')
    try:
        os.makedirs(os.path.join(scratch, 'src'))
        shutil.copy(os.path.join(REPO, 'Cargo.lock'), os.path.join(scratch, 'Cargo.lock'))
        with open(os.path.join(scratch, 'Cargo.toml'), 'w') as fh:
            fh.write(f'[package]\nname = "c14probe"\nversion = "0.0.0"\nedition = "2021"\n[workspace]\n[dependencies]\n'
                     f'ts-rs = {{ path = "{os.path.join(REPO, "ts-rs")}" }}\n')
        src = open(os.path.join(build.VERIF, 'corpus', 'lib.rs')).read()
        extra = []
        for i, t in enumerate(texts):
            lit = t.replace('\\', '\\\\').replace('"', '\\"')
            extra.append(f'pub struct W{i}; impl TS for W{i} {{ type WithoutGenerics = Self; type OptionInnerType = Self; fn name() -> String {{ "W{i}".into() }} '
                         f'fn inline() -> String {{ "{lit}".into() }} fn inline_flattened() -> String {{ "{lit}".into() }} '
                         f'fn decl() -> String {{ panic!() }} fn decl_concrete() -> String {{ panic!() }} }}')
        args = ', '.join(f'W{i}' for i in range(len(texts)))
        extra.append(f'fn main() {{ match std::panic::catch_unwind(|| <{item}<{args}> as TS>::inline()) {{ Ok(s) => println!("ok\\t{{}}", s), Err(_) => println!("panic\\t") }} }}')
        with open(os.path.join(scratch, 'src', 'main.rs'), 'w') as fh:
            fh.write(src + '\n' + '\n'.join(extra) + '\n')
        p = build.run(['cargo', 'run', '--offline', '-q', '--target-dir', os.path.join(build.CACHE, 'target-c14probe')], cwd=scratch)
        if p.returncode != 0:
            return ['builderr', p.stderr[-800:]]
        return p.stdout.strip().split('\t', 1)
    finally:
        shutil.rmtree(scratch, ignore_errors=True)


def structural_merge(item, shape, P, Q):
    """expected parent inline() for concrete texts (the same oracle, concretely)"""
    if shape == 'free':
        F = P
        depth, encl = 0, F.startswith('(') and F.endswith(')')
        if encl:
            for ch in F[:-1]:
                depth += (ch == '(') - (ch == ')')
                if depth < 1:
                    encl = False
                    break
        return {F, F[1:-1]} if encl else {F}
    if item == 'P3':
        return {'{ a: boolean, ' + P + ' }'} if shape == 'obj' else {'{ a: boolean, } & (' + P + ')'}
    if item == 'P4':
        return {'{ ' + P + ' }'}
    if item == 'P5':
        return {'{ ' + P + ' ' + Q + ' }'} if shape == 'obj+obj' else {'{ ' + P + ' } & (' + Q + ')'}
    return {'{ a: boolean, ' + P + ' x: W0, y: W0 | null, }'}


def flattened_texts(item, shape, P, Q):
    if shape == 'free':
        return [P]
    t = ['{ ' + P + ' }' if shape.startswith('obj') else '(' + P + ')']
    if item == 'P5':
        t.append('{ ' + Q + ' }' if shape == 'obj+obj' else '(' + Q + ')')
    return t


def main():
    rep = report.Report('C14', 'symbolic execution of rustc MIR (tier B): presentation variants of corpus items with abstract type arguments, and '
                               'flattening with the flattened text as a symbolic string so that the real textual rewrites are decided by z3 '
                               'against the structural merge on every path')
    tyres.setup()
    quick = TIER == 'quick'
    G['time_budget'] = 2400 if quick else 9000
    rep.functions = [{'corpus_item': it['src'], 'methods': sorted(it['methods'])} for n, it in G['corpus'].items()
                     if n.startswith('P') or n in ('Inner', 'G6')]
    rep.configs = ['ts-rs + ts-rs-macros: default features (corpus expanded by the real derive; MIR of the expansion)']
    try:
        eqs = equations()
        nat = None
        if any(bad for _, bad, _, _ in eqs):
            nat_raw = c07.native_probe(rep)           # the corpus compiled with the real derive, at the arguments Arg1 / Arg2
            nat = {k: v[1] for k, v in nat_raw.items() if v[0] == 'ok'}
        for label, bad, det, native in eqs:
            rep.obligations += 1
            if bad:
                confirmed = None
                if native is not None and nat is not None:
                    try:
                        l_, r_ = native(nat)
                        confirmed = l_ != r_
                        det = dict(det, native_left=l_, native_right=r_)
                    except KeyError:
                        confirmed = None
                if confirmed is False:
                    rep.inconclusive.append(f'engine finding does not reproduce natively: {label}: {det}')
                    continue
                rep.violations.append({'what': f'presentation equation violated: {label}: {det}', 'witness': det, 'key': label[:50]})
            else:
                rep.discharged += 1
                if len(rep.samples) < 4:
                    rep.samples.append({'equation': label, 'both_sides': det['left']})
    except Unsupported as e:
        rep.inconclusive.append(f'equations: {e}')
    cells = flatten_cells(quick)
    results = par.pmap(explore_flatten, cells)
    cand = []
    for r in results:
        cand += r.pop('violations', [])
        for fid, w in r.pop('known_hits', {}).items():
            rep.known_hits.setdefault(fid, w)
        rep.absorb(r)
    seen = {}
    for c in cand:
        seen.setdefault((c['cell'][0], c['cell'][1], c['why'][:20]), c)
    for c in list(seen.values())[:6]:
        item, shape, n = c['cell']
        texts = flattened_texts(item, shape, c['P'], c.get('Q') or '')
        nat = native_flatten(item, texts)
        c['native'] = nat
        want = structural_merge(item, shape, c['P'], c.get('Q') or '')
        if nat[0] == 'panic' or (nat[0] == 'ok' and nat[1] not in want):
            rep.violations.append({'what': f'{G["corpus"][item]["src"]} with flattened text(s) {texts}: inline() = {nat[1:]!r}, structural merge = {sorted(want)}',
                                   'witness': c, 'key': f'{item}/{shape}'})
        else:
            rep.inconclusive.append(f'engine counterexample does not reproduce natively: {c}')
    for fid, w in list(rep.known_hits.items()):
        item, shape, n = w['cell']
        nat = native_flatten(item, [w['P']])
        w['native'] = nat
        if not (nat[0] == 'ok' and nat[1] not in structural_merge(item, shape, w['P'], '')):
            del rep.known_hits[fid]
            rep.inconclusive.append(f'witness of known finding {fid} does not reproduce natively: {w}')
    rep.bounds = {'equations': 'all type arguments (abstract)', 'flatten_cells': [list(c) for c in cells],
                  'object_bodies': f'`{{ <n bytes over {ALPHA_OBJ!r}> }}`', 'lone flattened member': f'n bytes over {ALPHA_UNI!r}, delimited by ( ) or {{ }}'}
    rep.outside += ['flattened texts with blanks directly inside the delimiters or containing string literals (property names with ` } & { `)',
                    'texts in which the object-merge pattern ` } & { ` occurs INSIDE a parenthesised member (the rewrite is global over the text: an '
                    'inlined internally-tagged variant `{ "t": "A" } & { .. }` nested in a flattened union would be merged without a comma; observed '
                    'by the thorough tier on an artificial text, not pursued)',
                    'presentations outside the corpus', 'semantic equality beyond the textual normal form the derive aims at']
    rep.assumptions += ['"merging the flattened type\'s properties into the parent" is read as: object bodies are concatenated inside one pair of braces, '
                        'anything else is intersected as a parenthesised unit; a lone flattened member is itself, with at most one enclosing, matching '
                        'pair of parentheses removed']
    return rep.finish()


if __name__ == '__main__':
    run_main(main)
