"""C11 -- an export writes exactly the root's and its dependencies' files, as documented.

Executed symbolically (real MIR): export_all_into / export_recursive / Visit::visit / export_into / export_to / export_and_merge and
TS::default_output_path over a universe of 4 types whose dependency graph (adjacency matrix, incl. self-loops and cycles),
exportability and placement are symbolic, with unrelated files present beforehand. Oracle: the set of files created or
modified is exactly {base (+) output_path(t) : t exportable and reachable from the root through exportable types}, each created once,
nothing else touched, and default_output_path() names the file written.
The trailing-`/` rule of the generated output_path() is derive output (tier B) and outside this check.
"""
from .common import *
from . import fsworld as W
from .fsworld import TypeDef, o

G = W.G
CWD = '/tmp'
PLACES = ['{n}.ts', 'sub/{n}.ts', 'sub/deep/{n}.ts', '../up/{n}.ts', 'shared.ts']
# placements per type index: several types may share `shared.ts`
MENUS = [['{n}.ts', 'shared.ts'], ['{n}.ts', 'shared.ts', 'sub/{n}'], ['shared.ts', '../up/{n}.ts'], ['sub/deep/{n}.ts', 'shared.ts']]


def explore(item):
    cfg, root_entry, base, n, edge_mask_fixed = item
    ex = Explorer(time_budget=G.get('time_budget'))
    names = ['A', 'B', 'C', 'D'][:n]
    edges = [[z3.Bool(f'e{i}{j}') for j in range(n)] for i in range(n)]
    exportable = [z3.Bool(f'exp{i}') for i in range(n)]
    placev = [z3.Int(f'place{i}') for i in range(n)]
    out = {'violations': [], 'samples': [], 'obligations': 0, 'discharged': 0, 'models': set(), 'inconclusive': []}
    basedir = W.norm_path(CWD, base if base is not None else './bindings')

    def harness(ctx):
        tdefs = []
        for i in range(n):
            deps = [j for j in range(n) if (edge_mask_fixed[i][j] if edge_mask_fixed[i][j] is not None else ctx.decide(edges[i][j]))]
            exp = True if i < n - 1 else ctx.decide(exportable[i])       # the last type may be non-exportable
            menu = MENUS[min(i, len(MENUS) - 1)]
            pl = menu[ctx.pick(placev[i], len(menu))] if len(menu) > 1 else menu[0]
            tdefs.append(TypeDef(names[i], pl.format(n=names[i]) if exp else None, deps))
        m = W.machine(ctx, cfg, CWD, base if root_entry != 'export_all_to' else None)
        W.install(m, tdefs)
        fs = m.env['fs']
        fs.mkdirs(basedir + '/sub')
        before = {basedir + '/keep.txt': 'unrelated', basedir + '/sub/other.ts': 'export type Other = 1;\n', '/tmp/outside.txt': 'x'}
        for f, c in before.items():
            fs.nodes[f] = ['file', o(c)]
        fs.log.clear()
        r = W.call_entry(m, root_entry, 0, base if base is not None else './bindings')
        dop = m.call('<U0 as TS>::default_output_path', []) if root_entry != 'export_all_to' else None
        out['models'].update(m.calls)
        return tdefs, r, W.files_of(fs), list(fs.log), before, dop

    try:
        for pc, (tdefs, r, files, log, before, dop) in ex.run(harness):
            out['obligations'] += 1
            why = None
            reach = W.closure(tdefs, 0)
            want_files = {}
            for i in reach:
                f = W.norm_path(CWD, W.join(basedir, tdefs[i].out))
                want_files.setdefault(f, []).append(i)
            if r is not None:
                why = f'export of the root fails: {r}'
            else:
                created = [p for op, p in log if op == 'create']
                touched = {p for op, p in log if op in ('create', 'write')}
                if sorted(set(created)) != sorted(want_files):
                    why = f'files created {sorted(set(created))} != files of the reachable exportable types {sorted(want_files)}'
                elif len(created) != len(set(created)):
                    why = f'a file was created (truncated) more than once: {created}'
                elif touched - set(want_files):
                    why = f'files outside the export were written: {sorted(touched - set(want_files))}'
                else:
                    for f, c in before.items():
                        if f not in want_files and files.get(f) != c:
                            why = f'unrelated file {f} changed'
                    exp = W.expected_fs(CWD, tdefs, {i: basedir for i in reach}, cfg == 'esm')
                    for f in want_files:
                        if why is None and files.get(f) != exp[f]:
                            why = f'content of {f} is not the canonical content for {[tdefs[i].name for i in want_files[f]]}'
                if why is None and dop is not None:
                    d = dop.fields[0] if dop.disc == 1 else None
                    rep_path = None if d is None else W.norm_path(CWD, show(d))
                    mine = W.norm_path(CWD, W.join(basedir, tdefs[0].out))
                    if rep_path != mine or mine not in created:
                        why = f'default_output_path() reports {rep_path}, written: {mine in created}'
            if why is not None:
                if ex.check(pc) == z3.sat:
                    out['violations'].append({'cfg': cfg, 'entry': root_entry, 'base': base, 'why': why,
                                              'types': [(t.name, t.out, t.deps) for t in tdefs]})
                continue
            out['discharged'] += 1
            if not out['samples'] and len(reach) >= 3:
                out['samples'].append({'types': [(t.name, t.out, t.deps) for t in tdefs], 'files': sorted(want_files)})
    except Unsupported as e:
        out['inconclusive'].append(f'{item[:4]}: {e}')
    out.update(paths=ex.paths, nontrivial=ex.nontrivial, queries=ex.queries, solver_s=ex.solver_s)
    out['models'] = sorted(out['models'])
    return out


def native_check(v):
    tdefs = [TypeDef(n, out, deps) for n, out, deps in v['types']]
    base = v['base'] if v['base'] is not None else './bindings'
    rel = base.replace(CWD + '/', './')
    pre = [(0, 'mkdir', os.path.join(rel, 'sub')), (0, 'mkfile', os.path.join(rel, 'keep.txt'), 'unrelated'),
           (0, 'mkfile', os.path.join(rel, 'sub/other.ts'), 'export type Other = 1;\n')]
    env = None if v['entry'] == 'export_all_to' or v['base'] is None else rel
    results, files = W.native_history(v['cfg'], None, tdefs, [(v['entry'], 0, rel)], env, pre)
    r = results[0]
    reach = W.closure(tdefs, 0)
    basedir = W.norm_path(CWD, base)
    exp = W.expected_fs(CWD, tdefs, {i: basedir for i in reach}, v['cfg'] == 'esm')
    want = {os.path.relpath(f, CWD): c for f, c in exp.items()}
    want[os.path.normpath(os.path.join(rel, 'keep.txt'))] = 'unrelated'
    want[os.path.normpath(os.path.join(rel, 'sub/other.ts'))] = 'export type Other = 1;\n'
    got = {os.path.normpath(f): c for f, c in files.items()}
    why = None
    if r[0] != 'ok':
        why = f'native export fails: {r}'
    elif got != want:
        why = f'native directory {sorted(got)} differs from expected {sorted(want)}' if set(got) != set(want) else 'native file content differs'
    return why is not None, {'why': why, 'result': r, 'files': files}


def macro_half(rep, quick):
    """Tier B: the derive-generated output_path() obeys the documented rule for every export_to string: absent -> `<name>.ts`,
    ending in `/` -> the string with `<name>.ts` appended, otherwise the string verbatim"""
    from . import tyres
    tyres.setup()
    TG = tyres.G
    ob = di = 0
    N = 3 if quick else 5
    for item, nlen in [('E1', n) for n in range(0, N + 1)] + [('E5', n) for n in range(0, 3)] + [('E2', None), ('E3', None), ('E4', None)]:
        if item not in TG['corpus']:
            rep.inconclusive.append(f'corpus item {item} missing')
            continue
        ex = Explorer()
        A = [z3.BitVec(f'e{i}', CH) for i in range(nlen or 0)]
        B = [z3.BitVec(f'r{i}', CH) for i in range(1)]
        for c in A:
            ex.solver.add(z3.Or([c == ord(x) for x in '/.a']))
        for c in B:
            ex.solver.add(z3.Or([c == ord(x) for x in 'XY']))
        gens = TG['corpus'][item]['generics']
        ty = item + ('<' + ', '.join(gens) + '>' if gens else '')

        def h(ctx):
            r = tyres.Resolver(gens, sym={'sym_a': A, 'sym_b': B})
            m = tyres.machine(ctx, r)
            try:
                v = m.call(f'<{ty} as TS>::output_path', [])
            except Panic as e:
                return ('panic', str(e))
            return ('ok', v)
        try:
            res = ex.run(h)
        except Unsupported as e:
            rep.inconclusive.append(f'output_path of {item}: {e}')
            continue
        rep.absorb(dict(paths=ex.paths, nontrivial=ex.nontrivial, queries=ex.queries, solver_s=ex.solver_s))
        name = {'E5': B}.get(item, o(item))
        for pc, (k, v) in res:
            ob += 1
            if k == 'panic' or v.disc != 1:
                if ex.check(pc) == z3.sat:
                    rep.violations.append({'what': f'output_path() of {item} is not Some(..): {v}', 'witness': {'export_to': show(A, ex.model())},
                                           'key': f'op/{item}/none'})
                continue
            got = v.fields[0].cs
            given = {'E1': A, 'E5': A, 'E2': o('sub/dir/'), 'E3': None, 'E4': o('sub/file.ts')}[item]
            if given is None:
                want_dir, want_file = list(name) + o('.ts'), None
                bad = neq_strings(got, want_dir)
            else:
                as_dir = list(given) + list(name) + o('.ts')
                ends = (given[-1] == 47 if not is_sym(given[-1]) else given[-1] == 47) if given else False
                ends = z3.BoolVal(bool(ends)) if isinstance(ends, bool) else ends
                bad = z3.Or(z3.And(ends, neq_strings(got, as_dir)), z3.And(z3.Not(ends), neq_strings(got, list(given))))
            if ex.check(pc + [bad]) == z3.sat:
                mdl = ex.model()
                rep.violations.append({'what': f'output_path() of `{TG["corpus"][item]["src"]}` with export_to = {show(A, mdl)!r}: {show(got, mdl)!r}',
                                       'witness': {'item': item, 'export_to': show(A, mdl)}, 'key': f'op/{item}'})
            else:
                di += 1
    rep.absorb(dict(obligations=ob, discharged=di))
    rep.part('generated output_path() (tier B corpus)', obligations=ob)


def tyres_items():
    from . import tyres
    return list(tyres.G.get('corpus', {}))


def main():
    rep = report.Report('C11', 'bounded symbolic execution of rustc MIR: the recursive export over a type universe whose dependency graph, '
                               'exportability and placement are solver variables; on every path the set of files created/modified and their '
                               'contents are compared with the independently computed reachable set')
    W.setup()
    quick = TIER == 'quick'
    G['time_budget'] = 2400 if quick else 9000
    fns = G['fns']['plain']
    names = ['TS::export_all', 'TS::export_all_to', 'TS::default_output_path', 'export_all_into', 'export_recursive', 'export_into', 'export_to',
             'export_to_string', 'generate_imports', 'export_and_merge', 'merge', 'default_out_dir', 'export::path::absolute'] + \
        fn_names(fns, '>::visit', 'recursive_export')
    rep.functions = describe(fns, [n for n in names if n in fns])
    rep.configs = ['ts-rs: default features'] + ([] if quick else ['ts-rs: import-esm'])
    N = None
    items = []
    n = 3          # 4 types (65536 graphs x placements x 8 cells) did not finish within an hour; thorough widens entries / configurations
    # partition by the root's out-edges so that the work spreads over the cores
    import itertools
    for bits in itertools.product([False, True], repeat=n):
        mask = [[None] * n for _ in range(n)]
        mask[0] = list(bits)
        for entry, base in (('export_all', None), ('export_all_to', '/tmp/o/./x/..')) if quick else \
                (('export_all', None), ('export_all', 'out'), ('export_all_to', '/tmp/o/./x/..'), ('export_all_to', 'rel/dir/')):
            for cfg in (['plain'] if quick or base is not None else ['plain', 'esm']):
                items.append((cfg, entry, base, n, mask))
    rep.bounds = {'types': n, 'adjacency_matrix': f'all {n}x{n} boolean matrices (self-loops, cycles, diamonds)', 'exportability': 'symbolic for the last type',
                  'placements per type': MENUS, 'pre-existing files': ['<base>/keep.txt', '<base>/sub/other.ts', '/tmp/outside.txt'],
                  'entries': sorted({(i[1], str(i[2])) for i in items}), 'cells': len(items)}
    rep.outside += ['export_to strings longer than the bound in the generated output_path() rule',
                    'derive inputs outside the corpus (the reachability half checks visit_dependencies of the corpus items only)', 'graphs with more types']
    rep.assumptions += ['file-system model validated against the real file system (C06 validation + replay of counterexamples)']
    try:
        macro_half(rep, quick)
    except Unsupported as e:
        rep.inconclusive.append(f'macro half: {e}')
    # which types are "reachable": the derive-generated visit_dependencies of every corpus item reports exactly the types its
    # binding refers to, including the generic arguments of a field type written without `<..>` (alias / defaulted parameters).
    # Shared with C03 (props/c03.py macro_half): a type the derive fails to report is a file the export never writes.
    try:
        from . import c03
        c03.macro_half(rep)
        rep.part('derive-generated visit_dependencies (tier B corpus, shared with C03)', items=len(tyres_items()))
    except Unsupported as e:
        rep.inconclusive.append(f'reachability half: {e}')
    results = par.pmap(explore, items)
    # an intermediate type written by an earlier call must not cut off what lies behind it (shared with C06: props/c06.py explore_chain)
    from . import c06
    c06.G['time_budget'] = G.get('time_budget')
    chain_cand = []
    for r in par.pmap(c06.explore_chain, c06.CHAIN_ITEMS):
        chain_cand += r.pop('violations', [])
        rep.absorb(r)
    for c in chain_cand[:3]:
        is_viol, details = c06.native_check(c)
        c['native'] = details
        hist = [(e, c06.universe_chain()[t].name) for e, t, _ in c['steps']]
        if is_viol:
            rep.violations.append({'what': f'{c["why"]} | history {hist} | native: {details["why"]}', 'witness': c, 'key': 'chain/' + c['why'][:50]})
        else:
            rep.inconclusive.append(f'engine counterexample does not reproduce natively: {c["why"]} {hist}')
    cand = []
    for r in results:
        cand += r.pop('violations', [])
        rep.absorb(r)
    seen = {}
    for c in cand:
        seen.setdefault(re.sub(r"[\[{'/].*", '', c['why'])[:50], c)
    for c in list(seen.values())[:6]:
        is_viol, details = native_check(c)
        c['native'] = details
        if is_viol:
            rep.violations.append({'what': f'{c["why"]} | types {c["types"]} | native: {details["why"]}', 'witness': c, 'key': c['why'][:50]})
        else:
            rep.inconclusive.append(f'engine counterexample does not reproduce natively: {c["why"]} {c["types"]}')
    return rep.finish()


if __name__ == '__main__':
    run_main(main)
