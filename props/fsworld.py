"""Shared world for the file-system level properties (C06, C11, C17): a universe of types, the three export entry points run
through their real MIR (TS::export / export_all / export_all_to -> export_all_into / export_recursive / Visit::visit / export_into
-> export_to -> export_to_string / generate_imports / export_and_merge / merge), the file-system + registry models, and an
independent oracle for the expected directory contents."""
from .common import *
from . import c03, c05, c08
from mirsym.universe import Universe, UType
from mirsym.models3 import FSModel, HMap

NOTE = None
G = {}


def o(t):
    return [ord(c) for c in t]


def setup():
    c03.setup()
    G.update(c03.G)
    global NOTE
    NOTE = G['note']


def machine(ctx, cfg='plain', cwd='/tmp', envdir=None):
    m = c03.machine(ctx, cfg, cwd, {'TS_RS_EXPORT_DIR': o(envdir)} if envdir is not None else {})
    m.env['fs'] = FSModel(cwd)
    m.env['registry'] = HMap()
    m.env['lock_held'] = False
    return m


class TypeDef:
    def __init__(self, name, out, deps=(), body='0'):
        self.name, self.out, self.deps, self.body = name, out, list(deps), body

    @property
    def decl(self):
        return f'type {self.name} = {self.body};'


def install(m, tdefs):
    u = Universe([UType(o(t.name), o(t.decl), o(t.out) if t.out is not None else None, t.deps) for t in tdefs])
    u.install(m)
    return u


def call_entry(m, entry, i, dirspelling=None):
    """-> None (Ok) | ('err', repr) | ('panic', msg)"""
    m.env['lock_held'] = False
    try:
        if entry == 'export':
            r = m.call(f'<U{i} as TS>::export', [])
        elif entry == 'export_all':
            r = m.call(f'<U{i} as TS>::export_all', [])
        else:
            r = m.call(f'<U{i} as TS>::export_all_to::<&str>', [ValRef(RStr(o(dirspelling)))])
    except Panic as e:
        return ('panic', str(e))
    except AssertionError as e:
        return ('panic', 'lock discipline: ' + str(e))
    d = r.disc
    if is_sym(d):
        raise Unsupported('symbolic result of an export call')
    if d == 0:
        return None
    e = r.fields[0]
    return ('err', e.name if isinstance(e, Enum) else str(e))


# ------------------------------------------------------------------------------------------ oracle
def norm_path(cwd, p):
    """independent lexical normalisation (real file-system semantics without symlinks); None when it climbs above the root"""
    s = p if p.startswith('/') else cwd.rstrip('/') + '/' + p
    out = []
    for part in s.split('/'):
        if part in ('', '.'):
            continue
        if part == '..':
            if not out:
                return None
            out.pop()
        else:
            out.append(part)
    return '/' + '/'.join(out)


def join(base, rel):
    return rel if rel.startswith('/') else base.rstrip('/') + '/' + rel


def specifier(from_file, to_file, esm=False):
    """independent computation of the import specifier between two normalised absolute files (component arithmetic)"""
    a, b = from_file.strip('/').split('/')[:-1], to_file.strip('/').split('/')
    k = 0
    while k < len(a) and k < len(b) - 1 and a[k] == b[k]:
        k += 1
    up = len(a) - k
    rest = '/'.join(b[k:])
    s = ('../' * up + rest) if up else './' + rest
    if s.endswith('.ts'):
        s = s[:-3]
    return s + ('.js' if esm else '')


def expected_file(cwd, basedir, tdefs, members, file_abs, esm=False):
    """canonical content of `file_abs` when exactly the types `members` (indices, all placed there) have been exported"""
    imports = {}
    for i in members:
        seen = set()
        for d in tdefs[i].deps:
            if d == i or tdefs[d].out is None or d in seen:
                continue
            seen.add(d)
            df = norm_path(cwd, join(basedir, tdefs[d].out))
            if df == file_abs:
                continue
            imports.setdefault(specifier(file_abs, df, esm), set()).add(tdefs[d].name)
    text = NOTE
    for sp in sorted(imports):
        text += f'import type {{ {", ".join(sorted(imports[sp]))} }} from "{sp}";\n'
    for i in sorted(members, key=lambda j: tdefs[j].name):
        text += f'\nexport {tdefs[i].decl}\n'
    return text


def closure(tdefs, i):
    """exportable types reachable from i through dependency visits (i itself included when exportable)"""
    seen, stack, out = set(), [i], []
    while stack:
        j = stack.pop()
        if j in seen:
            continue
        seen.add(j)
        if tdefs[j].out is None:
            continue        # the recursive export does not descend through non-exportable types
        out.append(j)
        stack.extend(tdefs[j].deps)
    return out


def expected_fs(cwd, tdefs, exported, esm=False):
    """exported: {index: base directory it was exported into}; -> {abs file: content} or None if some path is invalid"""
    files = {}
    for i, basedir in exported.items():
        f = norm_path(cwd, join(basedir, tdefs[i].out))
        if f is None:
            return None
        files.setdefault((f, basedir), []).append(i)
    out = {}
    for (f, basedir), members in files.items():
        out[f] = expected_file(cwd, basedir, tdefs, members, f, esm)
    return out


def files_of(fs, under=None):
    return {k: ''.join(chr(c) for c in v[1]) for k, v in fs.nodes.items() if v[0] == 'file' and (under is None or k.startswith(under))}


# ------------------------------------------------------------------------------------------ native replay of a history
def native_history(cfg, cwd_unused, tdefs, steps, envdir, pre=(), post_rm=()):
    """steps: [(entry, index, dirspelling|None)], pre: [('mkfile', relpath, content) | ('mkdir', relpath)] executed before step k as
    (k, op...) tuples. Runs below a scratch directory that plays the role of the modelled cwd; returns (results, {relpath: content})."""
    import tempfile, shutil
    scratch = tempfile.mkdtemp(prefix='tsrs-verif-fs-')
    try:
        # `{CWD}` in a spelling stands for the (modelled) working directory: natively that is the scratch directory
        sub = lambda x: None if x is None else x.replace('{CWD}', scratch)
        envdir = sub(envdir)
        steps = [(e, i, sub(d)) for e, i, d in steps]
        req = [['reset'], ['chdir', scratch]]
        req.append(['setenv', 'TS_RS_EXPORT_DIR', envdir] if envdir is not None else ['unsetenv', 'TS_RS_EXPORT_DIR'])
        for i, t in enumerate(tdefs):
            req.append(['cfg', str(i), t.name, t.decl, t.out if t.out is not None else '-', ','.join(map(str, t.deps))])
        marks = []
        for k, st in enumerate(steps):
            for p in pre:
                if p[0] == k:
                    req.append([p[1], os.path.join(scratch, p[2])] + list(p[3:]))
            for p in post_rm:
                if p[0] == k:
                    req.append(['rm', os.path.join(scratch, p[1])])
            entry, i, sp = st
            marks.append(len(req))
            req.append([entry, str(i)] + ([sp] if entry == 'export_all_to' else []))
        req.append(['fsdump', scratch])
        ans = G['native'][cfg].batch(req, cwd=scratch)
        results = [ans[k] for k in marks]
        d = ans[-1]
        files = {p: c for p, c in zip(d[1::2], d[2::2]) if not p.endswith('/')}
        return results, files
    finally:
        shutil.rmtree(scratch, ignore_errors=True)
