"""C07 -- declarations of generic types are parametric and well-scoped.

Executed symbolically (real MIR, tier B): the impls the real derive generates for a corpus of generic definitions
(corpus/lib.rs) -- decl(), decl_concrete(), name(), inline(), the dummy parameter types nested in decl(), format_generics'
output -- together with every built-in impl they call, with the type ARGUMENTS ABSTRACT: `<T as TS>::name()` etc. are
uninterpreted holes, so each execution stands for every choice of type arguments.
"""
from .common import *
from . import tyres
from .tyres import Resolver, show_rope
from mirsym.interp import Hole

G = tyres.G
GENERIC_ITEMS = ['Inner', 'G1', 'G2', 'G3', 'G4', 'G5', 'G6', 'G7', 'G8', 'G9', 'G10', 'G11', 'G12', 'G13', 'G14', 'G15', 'G16', 'G17', 'Tg1', 'PF5', 'IO1', 'FL2', 'TS1', 'NT1', 'EU', 'ET', 'EA', 'IE1', 'IT1', 'IA1', 'IX1', 'IU1', 'Mk', 'Ov', 'K1', 'K2', 'K3', 'K4', 'K5', 'K6', 'K7', 'P1', 'P2', 'P3', 'P5', 'P6',
                 'P8', 'P9', 'R1', 'R2', 'E5']


# items whose TypeScript name is a solver-chosen string (R*, E*) other than the historical three, or whose declaration is replaced
# wholesale by `#[ts(type = ..)]` / `#[ts(as = ..)]` on the container (nothing generic is declared)
NOT_C07 = {'R3', 'R4', 'P11', 'S8', 'AE1', 'DD6', 'DN6', 'DD7', 'DN7', 'DD8', 'DN8'}


def type_text(name, item):
    ps = [p[1] for p in item['params'] if p[0] != 'lifetime']
    return name + ('<' + ', '.join(ps) + '>' if ps else '')


def run(ty, meth, abstract, custom=None):
    ex = Explorer()

    def h(ctx):
        r = Resolver(abstract, custom)
        m = tyres.machine(ctx, r)
        try:
            v = m.call(f'<{ty} as TS>::{meth}', [])
        except Panic as e:
            return ('panic', str(e), sorted(m.calls))
        return ('ok', list(v.cs), sorted(m.calls))
    res = ex.run(h)
    return ex, res


def ts_name_of(ty, params=()):
    """TypeScript name of a Rust type (defaults / concretised parameters), computed by the real code; type parameters occurring in
    it stand for themselves (a default such as `C = Vec<T>` is rendered `Array<T>`)"""
    ex, res = run(ty, 'name', list(params))
    if len(res) != 1 or res[0][1][0] != 'ok':
        raise Unsupported(f'cannot compute the TypeScript name of `{ty}`')
    return show_rope(subst_holes(res[0][1][1], {p: p for p in params}))


def subst_holes(rope, mapping):
    out = []
    for c in rope:
        if isinstance(c, Hole):
            p, _, meth = c.label.partition('.')
            if p in mapping:
                out.extend(ord(x) for x in mapping[p])
                continue
        out.append(c)
    return out


def check_item(name):
    item = G['corpus'][name]
    ty = type_text(name, item)
    gens = item['generics']
    out = {'violations': [], 'samples': [], 'obligations': 0, 'discharged': 0, 'models': set(), 'inconclusive': [], 'paths': 0, 'nontrivial': 0,
           'queries': 0, 'solver_s': 0.0}
    try:
        results = {}
        for meth in ('decl', 'decl_concrete', 'name', 'inline', 'ident'):
            ex, res = run(ty, meth, gens)
            out['paths'] += ex.paths
            out['queries'] += ex.queries
            out['solver_s'] += ex.solver_s
            out['nontrivial'] += ex.paths           # every path stands for all type arguments (uninterpreted holes)
            if len(res) != 1:
                raise Unsupported(f'{ty}::{meth}: {len(res)} paths (expected a straight-line body)')
            results[meth] = res[0][1]
            out['models'].update(res[0][1][2])

        def viol(what, **kw):
            out['violations'].append(dict(item=name, src=item['src'], what=what, **kw))
        # (0) totality
        for meth, r in results.items():
            out['obligations'] += 1
            if r[0] == 'panic':
                viol(f'{meth}() panics for abstract type arguments: {r[1]}', method=meth)
            else:
                out['discharged'] += 1
        if any(r[0] == 'panic' for r in results.values()):
            return finish(out)
        decl, declc, nm, inl, ident = (results[k][1] for k in ('decl', 'decl_concrete', 'name', 'inline', 'ident'))
        free = item['free']
        # (1) parametricity: the generic declaration does not depend on the arguments
        out['obligations'] += 1
        arg_holes = [c.label for c in decl if isinstance(c, Hole) and c.label.split('.')[0] in gens]
        if arg_holes:
            viol(f'decl() depends on the type arguments: {show_rope(decl)!r}', holes=arg_holes)
        else:
            out['discharged'] += 1
        # (2) header: `type <ident><P1, P2 = D> = BODY;` over exactly the non-concretised parameters, in order, with their defaults
        out['obligations'] += 1
        header = []
        for p in item['params']:
            if p[0] == 'type' and p[1] in free:
                header.append(p[1] + (' = ' + ts_name_of(p[2], gens) if p[2] else ''))
        want_head = o('type ') + list(ident) + (o('<' + ', '.join(header) + '>') if header else []) + o(' = ')
        if decl[:len(want_head)] != want_head or decl[-1:] != o(';'):
            viol(f'declaration header is {show_rope(decl[:len(want_head) + 4])!r}..., expected {show_rope(want_head)!r}', decl=show_rope(decl))
            return finish(out)
        out['discharged'] += 1
        body = decl[len(want_head):-1]
        # (3) no unbound parameter name in the body (concretised parameters must not be mentioned)
        out['obligations'] += 1
        text = show_rope(body)
        unbound = [p for p in item['concrete'] if re.search(r'(?<![\w"])' + p + r'(?![\w"])', text)]
        if unbound:
            viol(f'declaration body mentions the concretised parameter(s) {unbound}: {text!r}')
        else:
            out['discharged'] += 1
        # (4) name() = ident<argument names>
        out['obligations'] += 1
        want_name = list(ident) + ((o('<') + sum(([Hole(f'{p}.name')] + (o(', ') if i + 1 < len(free) else []) for i, p in enumerate(free)), []) + o('>'))
                                   if free else [])
        if nm != want_name:
            viol(f'name() = {show_rope(nm)!r}, expected {show_rope(want_name)!r}')
        else:
            out['discharged'] += 1
        # (5) expanding the generic declaration at the arguments == the concrete declaration: substitute the argument holes of
        #     inline() by the parameter names (concretised parameters: by the TypeScript name of their concrete type)
        out['obligations'] += 1
        mapping = {p: p for p in free}
        for p, cty in item['concrete'].items():
            mapping[p] = ts_name_of(cty, gens)
        if subst_holes(inl, mapping) != body:
            viol(f'decl() body {show_rope(body)!r} is not inline() {show_rope(inl)!r} with the arguments replaced by the parameter names')
        else:
            out['discharged'] += 1
        out['obligations'] += 1
        want_c = o('type ') + list(ident) + o(' = ') + list(inl) + o(';')
        if declc != want_c:
            viol(f'decl_concrete() = {show_rope(declc)!r}, expected `type <ident> = <inline()>;`')
        else:
            out['discharged'] += 1
        out['samples'].append({'item': item['src'], 'decl': show_rope(decl), 'name': show_rope(nm), 'inline': show_rope(inl)})
    except Unsupported as e:
        out['inconclusive'].append(f'{name}: {e}')
    return finish(out)


def finish(out):
    out['models'] = sorted(out['models'])
    return out


def o(t):
    return [ord(c) for c in t]


# ------------------------------------------------------------------------------------------ native side
def native_probe(rep):
    """compile the corpus with the real derive and print decl()/name()/inline()/decl_concrete() at concrete arguments; the engine's
    ropes instantiated at the same arguments must agree (translator validation), and a violating item is confirmed here"""
    import tempfile, shutil
    scratch = tempfile.mkdtemp(prefix='tsrs-verif-c07-')
    try:
        os.makedirs(os.path.join(scratch, 'src'))
        shutil.copy(os.path.join(REPO, 'Cargo.lock'), os.path.join(scratch, 'Cargo.lock'))
        with open(os.path.join(scratch, 'Cargo.toml'), 'w') as fh:
            fh.write(f'[package]\nname = "c07probe"\nversion = "0.0.0"\nedition = "2021"\n[workspace]\n[dependencies]\n'
                     f'ts-rs = {{ path = "{os.path.join(REPO, "ts-rs")}" }}\n')
        src = open(os.path.join(build.VERIF, 'corpus', 'lib.rs')).read()
        src = src.replace('pub fn sym_a() -> String { String::new() }', 'pub fn sym_a() -> String { "SymA".to_owned() }')
        src = src.replace('pub fn sym_b() -> String { String::new() }', 'pub fn sym_b() -> String { "SymB".to_owned() }')
        main = ['#[derive(TS, Clone)] pub struct Arg1 { pub q: u8 }', '#[derive(TS, Clone)] pub struct Arg2 { pub r: u8 }', 'fn main() {']
        for name, item in G['corpus'].items():
            ps = [p for p in item['params'] if p[0] != 'lifetime']
            if not ps:
                continue
            args = ', '.join('3' if ps[i][0] == 'const' else ['Arg1', 'Arg2'][i % 2] for i in range(len(ps)))
            t = f'{name}::<{args}>'
            for meth in ('decl', 'decl_concrete', 'name', 'inline'):
                main.append(f'    match std::panic::catch_unwind(|| <{t} as TS>::{meth}()) {{ Ok(s) => println!("{name}\\t{meth}\\tok\\t{{}}", s.replace(\'\\n\', "\\\\n")), '
                            f'Err(_) => println!("{name}\\t{meth}\\tpanic\\t") }}')
        main.append('}')
        with open(os.path.join(scratch, 'src', 'main.rs'), 'w') as fh:
            fh.write(src + '\n' + '\n'.join(main) + '\n')
        p = build.run(['cargo', 'run', '--offline', '-q', '--target-dir', os.path.join(build.CACHE, 'target-c07probe')], cwd=scratch)
        if p.returncode != 0:
            rep.inconclusive.append('c07 native probe failed to build/run: ' + p.stderr[-1500:])
            return {}
        nat = {}
        for ln in p.stdout.split('\n'):
            f = ln.split('\t')
            if len(f) >= 4:
                nat[(f[0], f[1])] = (f[2], f[3].replace('\\n', '\n'))
        return nat
    finally:
        shutil.rmtree(scratch, ignore_errors=True)


def instantiate(rope, item):
    ps = [p[1] for p in item['params'] if p[0] != 'lifetime']
    amap = {p: ['Arg1', 'Arg2'][i % 2] for i, p in enumerate(ps)}
    inl = {'Arg1': '{ q: number, }', 'Arg2': '{ r: number, }'}
    out = []
    for c in rope:
        if isinstance(c, Hole):
            p, _, meth = c.label.partition('.')
            if c.label in ('sym_a', 'sym_b'):
                out.append({'sym_a': 'SymA', 'sym_b': 'SymB'}[c.label])
            elif p in amap:
                out.append(amap[p] if meth in ('name', 'ident') else inl[amap[p]])
            else:
                out.append('{' + c.label + '}')
        else:
            out.append(chr(c))
    return ''.join(out)


def main():
    rep = report.Report('C07', 'symbolic execution of rustc MIR with abstract type arguments (tier B): the derive-generated decl/name/inline/'
                               'decl_concrete of a corpus of generic definitions run with `<T as TS>::*` uninterpreted, so every result is a '
                               'statement about all type arguments; checked against the parametricity / scoping / expansion equations')
    tyres.setup()
    quick = TIER == 'quick'
    # every generic corpus item (the explicit list above is the historical core; items added later are picked up automatically)
    items = [n for n in G['corpus'] if (n in GENERIC_ITEMS or G['corpus'][n]['generics']) and n not in NOT_C07]
    rep.functions = [{'corpus_item': G['corpus'][n]['src'], 'methods': sorted(G['corpus'][n]['methods']),
                      'dummy_parameter_impls': {p: sorted(v) for p, v in G['corpus'][n]['dummies'].items()}} for n in items]
    rep.configs = ['ts-rs + ts-rs-macros: default features (the real derive expands the corpus inside rustc; its MIR is dumped)']
    results = par.pmap(check_item, items)
    nat = native_probe(rep)
    # translator validation: ropes instantiated at concrete arguments == natively compiled results
    bad = n = 0
    for name, r in zip(items, results):
        item = G['corpus'][name]
        for s in r.get('samples', []):
            for meth, key in (('decl', 'decl'), ('name', 'name'), ('inline', 'inline')):
                if (name, meth) in nat and nat[(name, meth)][0] == 'ok':
                    # re-run to get the rope (samples hold rendered text only): compare through rendering with the same instantiation
                    # run again with the argument texts plugged in concretely (string rewrites then see the real text, as natively)
                    ps = [p[1] for p in item['params'] if p[0] != 'lifetime']
                    custom = {}
                    for i, p in enumerate(ps):
                        a = ['Arg1', 'Arg2'][i % 2]
                        body_ = {'Arg1': '{ q: number, }', 'Arg2': '{ r: number, }'}[a]
                        for mth, txt in (('name', a), ('ident', a), ('inline', body_), ('inline_flattened', body_)):
                            custom[(p, mth)] = (lambda t: (lambda m_: S(t)))(txt)
                    ex, res = run(type_text(name, item), meth, item['generics'], custom)
                    mine = instantiate(res[0][1][1], item) if res[0][1][0] == 'ok' else 'panic'
                    n += 1
                    if mine != nat[(name, meth)][1]:
                        bad += 1
                        if bad <= 3:
                            rep.inconclusive.append(f'translator validation mismatch {name}::{meth}: engine {mine!r} native {nat[(name, meth)][1]!r}')
    rep.validated('corpus impls at concrete arguments (Arg1/Arg2) vs the natively compiled derive output', n, bad)
    # rustc's MIR text prints the dummy struct `T` declared inside decl() and the type parameter `T` alike, so the engine must assume
    # that every mention inside decl() is the dummy. Whether that holds is visible natively: the compiled decl() at the arguments
    # Arg1 / Arg2 must not mention them. (Native evidence, reported as a violation of the parametricity clause.)
    for name in items:
        d = nat.get((name, 'decl'))
        if d and d[0] == 'ok' and re.search(r'\bArg[12]\b|\b[qr]: number', d[1]):
            rep.violations.append({'what': f'{G["corpus"][name]["src"]}: the natively compiled decl() at the arguments Arg1/Arg2 is {d[1]!r}: '
                                           f'it depends on the type arguments', 'witness': {'item': name, 'native_decl': d[1]}, 'key': f'{name}/native-decl'})
            rep.inconclusive[:] = [x for x in rep.inconclusive if not x.startswith(f'translator validation mismatch {name}::decl')]
    for name, r in zip(items, results):
        for v in r.pop('violations', []):
            # native confirmation: the same equation evaluated on the natively compiled strings
            conf = native_confirm(v, nat)
            v['native'] = conf
            if conf is False:
                rep.inconclusive.append(f'engine finding does not reproduce natively: {v["item"]}: {v["what"]}')
            else:
                rep.violations.append({'what': f'{v["src"]}: {v["what"]}', 'witness': v, 'key': f'{v["item"]}/{v["what"][:40]}'})
        rep.absorb(r)
    rep.bounds = {'corpus': [G['corpus'][n]['src'] for n in items], 'type_arguments': 'universal (abstract: their TS methods are uninterpreted holes)',
                  'const_arguments': 'held fixed (N = 3)'}
    rep.outside += ['generic definitions outside the corpus', 'arguments whose name()/inline() text interacts with the ` } & { ` rewrite '
                    '(holes are opaque to string search; the flatten rewrite with symbolic texts is C14\'s subject)',
                    'bounds / where-clauses of the generated impl header (a matter of compiling, C16)']
    rep.assumptions += ['the corpus is expanded by the real derive of the working tree inside rustc; pairing of MIR symbols with corpus items is '
                        'by source line (one item per line) and of dummy parameter impls by order; both are covered by translator validation']
    return rep.finish()


def native_confirm(v, nat):
    name = v['item']
    d = {m: nat.get((name, m)) for m in ('decl', 'decl_concrete', 'name', 'inline')}
    if any(x is None for x in d.values()):
        return None
    if 'panics' in v['what']:
        return any(x[0] == 'panic' for x in d.values())
    if any(x[0] == 'panic' for x in d.values()):
        return True
    decl, declc, nm, inl = (d[m][1] for m in ('decl', 'decl_concrete', 'name', 'inline'))
    if 'depends on the type arguments' in v['what']:
        return 'Arg1' in decl or 'Arg2' in decl or 'q: number' in decl
    if 'decl_concrete' in v['what']:
        return not (declc.startswith('type ') and declc.endswith(' = ' + inl + ';'))
    if 'name()' in v['what']:
        return not re.fullmatch(r'[\w$]+(<(Arg1|Arg2)(, (Arg1|Arg2))*>)?', nm)
    if 'declaration header' in v['what']:
        # the binder list of the natively compiled declaration names exactly the non-concretised type parameters, in order
        hm = re.match(r'^type [\w$]+(?:<(.*?)>)? = ', decl)
        if not hm:
            return True
        binders = mirparse.split_top(hm.group(1)) if hm.group(1) else []
        got = [b.split('=')[0].strip() for b in binders]
        if got != list(G['corpus'][name]['free']):
            return True
        # a parameter with a Rust default carries a default in the declaration as well (and only such a parameter)
        has_default = {p_[1]: p_[2] is not None for p_ in G['corpus'][name]['params'] if p_[0] == 'type'}
        return any(('=' in b) != has_default.get(b.split('=')[0].strip(), False) for b in binders)
    # header / body equations: re-derive the expected text from the native inline()
    body = decl.split(' = ', 1)[1][:-1] if ' = ' in decl else ''
    item = G['corpus'][name]
    ps = [p[1] for p in item['params'] if p[0] != 'lifetime']
    back = inl
    for i, p in enumerate(ps):
        a = ['Arg1', 'Arg2'][i % 2]
        if p in item['free']:
            back = back.replace({'Arg1': '{ q: number, }', 'Arg2': '{ r: number, }'}[a], p).replace(a, p)
    if item['concrete']:
        return None
    return back != body


if __name__ == '__main__':
    run_main(main)
