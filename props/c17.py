"""C17 -- export failures are returned as errors and do not poison later exports.

Executed symbolically (real MIR): the export entry points over the type universe and the file-system/registry models (see
props/fsworld.py), with ONE obstacle injected before a symbolic step of a symbolic history, then removed, then the failed
step retried. Obstacles: the target path is a directory; a parent component is a regular file; the type's export path has
more `..` than the depth of the directory; the root type is not exportable. Oracle: the obstructed call returns Err (no
panic path is feasible), every other file is byte-identical to before the call, the registry has no entry for the failed
name, and the directory after the retry equals the directory of the fault-free history.
"""
from .common import *
from . import fsworld as W
from .fsworld import TypeDef, o

G = W.G
CWD = '/tmp'
BIND = '/tmp/bindings'
ENTRIES = ['export', 'export_all', 'export_all_to']
OBSTACLES = ['target_is_dir', 'parent_is_file', 'dotdot', 'not_exportable']


def universe(obstacle, ups=6):
    # A, B share s.ts; C (sub/C.ts) depends on A; E lives above the export directory
    up = '../' * (ups if obstacle == 'dotdot' else 0)
    return [TypeDef('A', 's.ts', [], '{ a: number, }'), TypeDef('B', 's.ts', [], 'string'), TypeDef('C', 'sub/C.ts', [0], '{ a: A, }'),
            TypeDef('E', up + 'E.ts', [0], 'A'), TypeDef('D', None),
            # F's first dependency (C) can be obstructed while its second one (A) exports fine afterwards
            TypeDef('F', 'F.ts', [2, 0], '{ c: C, a: A, }'),
            # G -> H -> E: the obstructed type two levels below the root
            TypeDef('G', 'G.ts', [7], '{ h: H, }'), TypeDef('H', 'H.ts', [3], '{ e: E, }')]


def target_of(obstacle, t):
    """which type's export the obstacle makes fail, and where the obstacle sits"""
    return {'target_is_dir': BIND + ('/sub/C.ts' if t in (2, 5) else '/s.ts'), 'parent_is_file': BIND + '/sub'}.get(obstacle)


def explore(item):
    obstacle, nsteps, fail_at, victim, ups = item
    ex = Explorer(time_budget=G.get('time_budget'))
    tdefs = universe(obstacle, ups)
    stepv = [(z3.Int(f'entry{k}'), z3.Int(f'type{k}')) for k in range(nsteps)]
    ventry = z3.Int('victim_entry')
    out = {'violations': [], 'samples': [], 'obligations': 0, 'discharged': 0, 'models': set(), 'inconclusive': []}

    def run_history(ctx, with_fault, steps_fixed=None):
        m = W.machine(ctx, 'plain', CWD, None)
        W.install(m, tdefs if with_fault or obstacle != 'dotdot' else universe(None))
        fs = m.env['fs']
        fs.mkdirs(BIND)
        fs.nodes[BIND + '/keep.txt'] = ['file', o('unrelated')]
        steps, events = [], []
        k = 0
        idx = 0
        while k < nsteps:
            if steps_fixed is not None:
                e, t = steps_fixed[k]
            elif k == fail_at:
                e, t = ctx.pick(ventry, 3), victim
            else:
                e, t = ctx.pick(stepv[k][0], 3), ctx.pick(stepv[k][1], 3)
            steps.append((e, t))
            if with_fault and k == fail_at:
                before_files = None
                if obstacle == 'target_is_dir':
                    p = target_of(obstacle, t)
                    if p in fs.nodes:
                        return None            # the file already exists from an earlier step: this obstacle cannot be placed
                    fs.mkdirs(p)
                elif obstacle == 'parent_is_file':
                    if BIND + '/sub' in fs.nodes:
                        return None
                    fs.nodes[BIND + '/sub'] = ['file', o('i am a file')]
                before = W.files_of(fs)
                reg_before = registry_names(m)
                r = W.call_entry(m, ENTRIES[e], t, BIND)
                after = W.files_of(fs)
                events.append(('fault', ENTRIES[e], t, r, before, after, reg_before, registry_names(m)))
                # remove the obstacle, retry
                if obstacle == 'target_is_dir':
                    del fs.nodes[target_of(obstacle, t)]
                elif obstacle == 'parent_is_file':
                    del fs.nodes[BIND + '/sub']
                if obstacle in ('target_is_dir', 'parent_is_file'):
                    r2 = W.call_entry(m, ENTRIES[e], t, BIND)
                    events.append(('retry', ENTRIES[e], t, r2))
            else:
                r = W.call_entry(m, ENTRIES[e], t, BIND)
                events.append(('step', ENTRIES[e], t, r))
            k += 1
        out['models'].update(m.calls)
        return steps, events, W.files_of(fs)

    def harness(ctx):
        a = run_history(ctx, True)
        if a is None:
            return None
        steps, events, files = a
        b = run_history(ctx, False, steps) if obstacle in ('target_is_dir', 'parent_is_file') else None
        return steps, events, files, (b[2] if b else None), (b[1] if b else None)

    try:
        for pc, res in ex.run(harness):
            if res is None:
                continue
            steps, events, files, clean_files, clean_events = res
            out['obligations'] += 1
            why = None
            for ev in events:
                if ev[0] == 'fault':
                    _, entry, t, r, before, after, reg_b, reg_a = ev
                    name = tdefs[t].name
                    must_fail = True
                    if obstacle == 'parent_is_file' and t != 2 and not (entry != 'export' and 2 in W.closure(tdefs, t)):
                        must_fail = False      # the obstacle is not on this call's way
                    if obstacle == 'target_is_dir' and t == 5 and entry == 'export':
                        must_fail = False      # export(F) alone does not touch C's file
                    if obstacle == 'dotdot' and t == 6 and entry == 'export':
                        must_fail = False      # export(G) alone writes G.ts, which imports only H
                    if r is not None and r[0] == 'panic':
                        why = f'{entry}({name}) panics under obstacle {obstacle}: {r[1]}'
                    elif must_fail and r is None:
                        why = f'{entry}({name}) reports success although the export cannot be carried out ({obstacle})'
                    elif r is not None:
                        # every file is untouched, except files legitimately written by the recursive export before it hit the obstacle
                        allowed = set()
                        if entry != 'export':
                            for j in W.closure(tdefs, t):
                                f = W.norm_path(CWD, W.join(BIND, tdefs[j].out))
                                if f:
                                    allowed.add(f)
                        changed = {f for f in set(before) | set(after) if before.get(f) != after.get(f)}
                        if changed - allowed:
                            why = f'failed {entry}({name}) modified other files: {sorted(changed - allowed)}'
                        # the type whose own file is obstructed (for F it is its dependency C) must not be recorded as written
                        ot = 2 if (t == 5 and obstacle == 'target_is_dir') else t
                        failed_file = W.norm_path(CWD, W.join(BIND, tdefs[ot].out)) if tdefs[ot].out else None
                        oname = tdefs[ot].name
                        if failed_file and obstacle in ('target_is_dir',) and oname in reg_a.get(failed_file, set()) and oname not in reg_b.get(failed_file, set()):
                            why = f'failed export of {oname} (through {entry}({name})) was recorded as done in the registry'
                elif ev[0] == 'retry':
                    if ev[3] is not None:
                        why = f'retry of {ev[1]}({tdefs[ev[2]].name}) after removing the obstacle fails: {ev[3]}'
                elif ev[3] is not None and tdefs[ev[2]].out is not None and obstacle not in ('dotdot',):
                    why = f'fault-free step {ev[1]}({tdefs[ev[2]].name}) fails: {ev[3]}'
            if why is None and clean_files is not None and files != clean_files:
                diff = sorted(f for f in set(files) | set(clean_files) if files.get(f) != clean_files.get(f))
                why = f'directory after failure+retry differs from the fault-free history: {diff[:3]}'
            if why is not None:
                if ex.check(pc) == z3.sat:
                    out['violations'].append({'obstacle': obstacle, 'fail_at': fail_at, 'steps': [(ENTRIES[e], t) for e, t in steps],
                                              'why': why, 'ups': ups})
                continue
            out['discharged'] += 1
            if not out['samples']:
                out['samples'].append({'obstacle': obstacle, 'steps': [(ENTRIES[e], tdefs[t].name) for e, t in steps],
                                       'events': [(ev[0], ev[1], tdefs[ev[2]].name, 'ok' if ev[3] is None else ev[3][0]) for ev in events]})
    except Unsupported as e:
        out['inconclusive'].append(f'{item}: {e}')
    out.update(paths=ex.paths, nontrivial=ex.nontrivial, queries=ex.queries, solver_s=ex.solver_s)
    out['models'] = sorted(out['models'])
    return out


def registry_names(m):
    reg = m.env.get('registry')
    outd = {}
    if reg is None:
        return outd
    for k, v in reg.items:
        key = show(models2.deref_all(m, k))
        outd[key] = {show(models2.deref_all(m, n)) for n, _ in v.items}
    return outd


def native_check(v):
    """replay natively: history with the obstacle, removal, retry; compare with the fault-free native history"""
    # natively the history runs below a scratch directory that is deeper than the modelled /tmp: keep the number of `..` segments
    # *in excess of the depth* the same, so that the native path climbs above the root exactly as the modelled one does (and a
    # replay can never write outside its scratch directory)
    import tempfile
    extra = len(tempfile.gettempdir().strip('/').split('/')) + 1 - len(CWD.strip('/').split('/'))
    tdefs = universe(v['obstacle'], v.get('ups', 6) + extra)
    steps = [(e, t, './bindings') for e, t in v['steps']]
    pre = [(0, 'mkdir', 'bindings'), (0, 'mkfile', 'bindings/keep.txt', 'unrelated')]
    k = v['fail_at']
    e, t, _ = steps[k]
    rm = []
    faulty = list(steps)
    if v['obstacle'] == 'target_is_dir':
        rel = os.path.relpath(target_of('target_is_dir', t), CWD)
        pre.append((k, 'mkdir', rel))
        faulty = steps[:k + 1] + [steps[k]] + steps[k + 1:]
        rm = [(k + 1, rel)]
    elif v['obstacle'] == 'parent_is_file':
        pre.append((k, 'mkfile', 'bindings/sub', 'i am a file'))
        faulty = steps[:k + 1] + [steps[k]] + steps[k + 1:]
        rm = [(k + 1, 'bindings/sub')]
    results, files = W.native_history('plain', None, tdefs, faulty, None, pre, rm)
    why = None
    r = results[k]
    if r[0] == 'panic':
        why = f'native {e}({tdefs[t].name}) panics: {r[1]}'
    if v['obstacle'] in ('target_is_dir', 'parent_is_file'):
        cres, cfiles = W.native_history('plain', None, tdefs, steps, None, [(0, 'mkdir', 'bindings'), (0, 'mkfile', 'bindings/keep.txt', 'unrelated')])
        if why is None and results[k + 1][0] != 'ok':
            why = f'native retry fails: {results[k + 1]}'
        if why is None and files != cfiles:
            why = 'native directory after failure+retry differs from the fault-free history'
        if why is None and r[0] == 'ok' and (v['obstacle'] == 'target_is_dir'):
            why = 'native export reports success although the target is a directory'
    else:
        if why is None and r[0] == 'ok' and not (v['obstacle'] == 'dotdot' and t == 6 and e == 'export'):
            why = f'native {e}({tdefs[t].name}) reports success'
        if why is None and r[0] != 'ok':
            # what did the failed call leave behind?  the same history cut before / after the failing step
            base = [(0, 'mkdir', 'bindings'), (0, 'mkfile', 'bindings/keep.txt', 'unrelated')]
            _, before = W.native_history('plain', None, tdefs, steps[:k], None, base) if k else (None, {'bindings/keep.txt': 'unrelated'})
            _, after = W.native_history('plain', None, tdefs, steps[:k + 1], None, base)
            allowed = set()
            if e != 'export':
                for j in W.closure(tdefs, t):
                    if tdefs[j].out and not tdefs[j].out.startswith('../'):
                        allowed.add('bindings/' + tdefs[j].out)
            changed = {f for f in set(before) | set(after) if before.get(f) != after.get(f)}
            if changed - allowed:
                why = f'natively the failed {e}({tdefs[t].name}) modified other files: {sorted(changed - allowed)}'
    return why is not None, {'why': why, 'results': results, 'files': files}


def main():
    rep = report.Report('C17', 'bounded symbolic execution of rustc MIR: export histories with one injected obstacle (the four kinds of the '
                               'statement) before a solver-chosen step, removal and retry, over the file-system/registry models; on every '
                               'path: Err not panic, other files untouched, not recorded as done, retry converges to the fault-free directory')
    W.setup()
    quick = TIER == 'quick'
    G['time_budget'] = 2400 if quick else 9000
    fns = G['fns']['plain']
    names = ['TS::export', 'TS::export_all', 'TS::export_all_to', 'TS::default_output_path', 'export_all_into', 'export_recursive', 'export_into',
             'export_to', 'export_to_string', 'generate_imports', 'export_and_merge', 'merge', 'export::path::absolute', 'diff_paths', 'import_path'] \
        + fn_names(fns, '>::visit', 'recursive_export')
    rep.functions = describe(fns, [n for n in names if n in fns])
    rep.configs = ['ts-rs: default features']
    items = []
    nsteps = 2 if quick else 3
    for ob in OBSTACLES:
        for k in range(nsteps):
            victims = {'target_is_dir': [0, 2, 5], 'parent_is_file': [2, 0, 5], 'dotdot': [3, 6, 7], 'not_exportable': [4]}[ob]
            for v in victims:
                for ups in ([3, 4, 6] if ob == 'dotdot' else [0]):
                    items.append((ob, nsteps, k, v, ups))
    rep.bounds = {'universe': 'A, B -> s.ts; C -> sub/C.ts (depends on A); F -> F.ts (depends on C, then A); E -> (../)^n E.ts with n in {depth+1, depth+2, depth+4} under the `dotdot` obstacle, G -> H -> E (the obstructed type at depth 2); D not exportable',
                  'history_length': nsteps, 'entry_points': ENTRIES, 'obstacles': OBSTACLES,
                  'fault_position': 'every step', 'other_steps': 'symbolic entry point x type in {A, B, C}', 'cells': len(items)}
    rep.outside += ['I/O errors in the middle of a write (not part of the statement)', 'permission errors', 'more than one obstacle per history']
    rep.assumptions += ['file-system model: create_dir_all / File::create / OpenOptions::open fail with ENOTDIR / EISDIR / ENOENT exactly as POSIX '
                        'does for these obstacles (replayed natively for every counterexample)']
    results = par.pmap(explore, items)
    cand = []
    for r in results:
        cand += r.pop('violations', [])
        rep.absorb(r)
    seen = {}
    for c in cand:
        seen.setdefault((c['obstacle'], re.sub(r'[:\[(].*', '', c['why'])[:40]), c)
    for c in list(seen.values())[:8]:
        is_viol, details = native_check(c)
        c['native'] = details
        if is_viol:
            rep.violations.append({'what': f'{c["why"]} | history {c["steps"]}, obstacle {c["obstacle"]} before step {c["fail_at"]} | native: '
                                           f'{details["why"]}', 'witness': c, 'key': c['obstacle'] + c['why'][:40]})
        else:
            rep.inconclusive.append(f'engine counterexample does not reproduce natively: {c["why"]} {c["steps"]} {c["obstacle"]}')
    return rep.finish()


if __name__ == '__main__':
    run_main(main)
