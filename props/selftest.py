"""Std-model self-test (not a property check): every `t_*` function of /verif/selftest/lib.rs is executed by the symbolic executor,
with the Python models standing in for std, and compared with the natively compiled result.  Exit 0 iff all agree.
Run: ./check selftest   (used while extending the models; also run by setup.sh)"""
from .common import *
import shutil
import subprocess


def crate():
    d = os.path.join(build.CACHE, 'selftest-crate')
    os.makedirs(os.path.join(d, 'src'), exist_ok=True)
    for a, b_ in (('lib.rs', 'src/lib.rs'), ('main.rs', 'src/main.rs')):
        shutil.copy(os.path.join(build.VERIF, 'selftest', a), os.path.join(d, b_))
    with open(os.path.join(d, 'Cargo.toml'), 'w') as fh:
        fh.write('[package]\nname = "selftest"\nversion = "0.0.0"\nedition = "2021"\n[workspace]\n')
    return d


def unescape_rust(t):
    """inverse of str::escape_default"""
    simple = {'n': '\n', 't': '\t', 'r': '\r', '\\': '\\', "'": "'", '"': '"', '0': '\0'}
    return re.sub(r'\\(u\{([0-9a-fA-F]+)\}|.)', lambda a: chr(int(a.group(2), 16)) if a.group(2) else simple.get(a.group(1), a.group(1)), t)


def main():
    d = crate()
    src = os.path.join(build.VERIF, 'selftest', 'lib.rs')
    mir = build.mir_dump(os.path.join(d, 'Cargo.toml'), 'selftest', (), tag='selftest', key_hash=build.tree_hash(src))
    fns = build.parsed(mir)
    env = dict(build.ENV)
    env['RUSTUP_TOOLCHAIN'] = 'nightly'
    p = subprocess.run(['cargo', 'run', '--offline', '-q', '--manifest-path', os.path.join(d, 'Cargo.toml'), '--target-dir',
                        os.path.join(build.CACHE, 'target-selftest')], env=env, stdout=subprocess.PIPE, stderr=subprocess.PIPE, text=True)
    if p.returncode != 0:
        print(p.stderr[-3000:])
        return 2
    native = dict(l.split('\t', 1) for l in p.stdout.splitlines() if '\t' in l)
    enums, structs = srcinfo.scan([src])
    only = sys.argv[1:]
    bad = 0
    for name in sorted(native):
        if only and name not in only:
            continue
        ex = Explorer()

        def harness(ctx):
            m = Machine(fns, MODELS, ctx, enums)
            m.struct_fields = structs
            try:
                return ('ok', m.call(name, []))
            except Panic as e:
                return ('panic', str(e))
        try:
            res = ex.run(harness)
        except Unsupported as e:
            print(f'{name}: UNSUPPORTED {e}')
            bad += 1
            continue
        except Exception as e:
            import traceback
            tb = traceback.extract_tb(e.__traceback__)
            print(f'{name}: ENGINE ERROR {type(e).__name__}: {e}  [{tb[-1].filename.split("/")[-1]}:{tb[-1].lineno}]')
            bad += 1
            continue
        if len(res) != 1:
            print(f'{name}: {len(res)} paths for a concrete computation')
            bad += 1
            continue
        k, v = res[0][1]
        got = 'PANIC' if k == 'panic' else show(models2.deref_all(None, v) if not isinstance(v, RStr) else v)
        want = native[name] if native[name] == 'PANIC' else unescape_rust(native[name])
        if got == want:
            print(f'{name}: agree ({len(got)} chars)')
        else:
            i = next((j for j, (a, b_) in enumerate(zip(got, want)) if a != b_), min(len(got), len(want)))
            print(f'{name}: DIFFER at {i}\n   engine {got[max(0, i - 30):i + 40]!r}\n   native {want[max(0, i - 30):i + 40]!r}' + (f'   ({v})' if k == 'panic' else ''))
            bad += 1
    print(f'selftest: {len(native) - bad}/{len(native)} functions agree')
    return 1 if bad else 0


if __name__ == '__main__':
    sys.exit(main())
