"""C13 -- bindings are a deterministic function of the source and configuration (output boundary).

Executed symbolically (real MIR): export_to_string / generate_imports under a symbolic permutation and duplication of the
dependency-visit order (this is where the derive's HashSet iteration order and the test-thread schedule enter the runtime);
export_and_merge / merge under a symbolic export order of the types sharing a file. Every HashMap/HashSet *iteration* on
these paths yields a symbolic order (lookups are order-free), so an order leak into the output is a solver-found witness.
Independent compilations as such are not encodable; that the derive's own strings do not depend on hash order is argued in
DESIGN.md 4 (C13) and is outside this check.
"""
from .common import *
from . import c03, c05, c06


def main():
    rep = report.Report('C13', 'bounded symbolic execution of rustc MIR: the same type universe exported under two dependency-visit orders '
                               '(symbolic permutation + duplication) must give byte-identical text; the same set of types merged into one file '
                               'under every export order must give the canonical file; hash-collection iteration order is symbolic')
    c03.setup()
    quick = TIER == 'quick'
    c03.G['time_budget'] = 2400 if quick else 9000
    items, cand = c03.run(rep, quick)
    c03.common_report_fields(rep, items)
    c03.confirm(rep, cand, only='order')
    imports_findings = [c for c in cand if not c['why'].startswith('output depends on the order')]
    if imports_findings:
        rep.part('note', text=f'{len(imports_findings)} import-specification finding(s) on these paths belong to C03 and are reported there')
    # which instantiation of a generic type reaches the shared file first must not matter (shared with C03)
    try:
        c03.generic_instantiation_part(rep)
    except Unsupported as e:
        rep.inconclusive.append(f'generic instantiation part: {e}')
    # shared files: order of exports
    c05.setup()
    c05.G['time_budget'] = 2400 if quick else 9000
    items5 = []
    for perm in ([0], [1]):
        items5.append(dict(k=2, doc0='fixed', body0=0, imps=[[1], [0, 2]], docs=[[0, 1], [0]], generic=[0], perms=perm))
    for perm in range(6):
        items5.append(dict(k=3, doc0='fixed', body0=0, imps=[[1], [0, 2], [0]], docs=[[0], [0], [0]], generic=[], perms=[perm]))
    res5 = par.pmap(c05.explore, items5)
    cand5, cand5_i = [], []
    for r in res5:
        cand5 += r.pop('violations', [])
        cand5_i += r.pop('violations_ident', [])
        r.pop('known_hits', None)
        rep.absorb(r)
    if cand5 and not cand5_i:
        cand5 = []          # consistently ordered by identifier: see props/c05.py
    seen = {}
    for c in cand5:
        seen.setdefault(c['what'], c)
    for c in seen.values():
        is_viol, details = c05.native_confirm(c)
        c['native'] = details
        if is_viol:
            rep.violations.append({'what': f'shared file depends on export order: {c["what"]} (order {c["order"]}, names {c["names"]})',
                                   'witness': c, 'key': 'merge/' + c['what']})
        else:
            rep.inconclusive.append(f'engine counterexample does not reproduce natively: {c["what"]}')
    rep.functions += describe(c05.G['fns'], ['export_and_merge', 'merge'])
    # which call reaches a shared dependency / a shared file first: two-call histories over the entry points (reduced C06 cells)
    c06.W.setup()
    c06.G['time_budget'] = 2400 if quick else 9000
    items6 = [('plain', 2, [None], ['bindings/'], ['empty'], (e, t)) for e in range(3) for t in range(4)]
    if not quick:
        items6 += [('plain', 3, [None], ['bindings/'], ['empty'], (e, t)) for e in range(3) for t in range(3)]
    cand6 = []
    sym6 = [('plain', a, b) for a, b in (((0, 0), (0, 1)), ((0, 1), (0, 0)), ((2, 2), (0, 1)), ((0, 1), (2, 2)))]
    for r in par.pmap(c06.explore, items6) + par.pmap(c06.explore_symlink, sym6):
        cand6 += r.pop('violations', [])
        rep.absorb(r)
    seen6 = {}
    for c in cand6:
        seen6.setdefault(re.sub(r'\[.*', '', c['why'])[:60], c)
    for c in list(seen6.values())[:4]:
        is_viol, details = c06.native_check(c)
        c['native'] = details
        hist = [(e, c06.universe()[t].name) for e, t, _ in c['steps']]
        if is_viol:
            rep.violations.append({'what': f'directory contents depend on which call came first: {c["why"]} | history {hist} | native: {details["why"]}',
                                   'witness': c, 'key': 'history/' + c['why'][:60]})
        else:
            rep.inconclusive.append(f'engine counterexample does not reproduce natively: {c["why"]} {c["steps"]}')
    rep.bounds['call_histories'] = 'every history of 2 (thorough: 3) entry-point calls over the C06 universe, default directory spelling, plus 4 with the export directory behind a symlink (reduced C06 cells)'
    rep.bounds['shared_file_orders'] = 'K=2 and K=3 types, every permutation, canonical file after every prefix (reduced C05 cells)'
    rep.outside += ['independent compilations / fresh macro processes as such', 'hash-order dependence inside the derive that changes a '
                    'generated *string* (only visit order and where-clause order consume Dependencies\' HashSet order at the pinned commit)',
                    'TS::dependencies() returns a Vec in visit order: not a string-returning function, not claimed']
    return rep.finish()


if __name__ == '__main__':
    run_main(main)
