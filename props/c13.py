"""C13 -- bindings are a deterministic function of the source and configuration (output boundary).

Executed symbolically (real MIR): export_to_string / generate_imports under a symbolic permutation and duplication of the
dependency-visit order (this is where the derive's HashSet iteration order and the test-thread schedule enter the runtime);
export_and_merge / merge under a symbolic export order of the types sharing a file. Every HashMap/HashSet *iteration* on
these paths yields a symbolic order (lookups are order-free), so an order leak into the output is a solver-found witness.
Independent compilations as such are not encodable; that the derive's own strings do not depend on hash order is argued in
DESIGN.md 4 (C13) and is outside this check.
"""
from .common import *
from . import c03, c05


def main():
    rep = report.Report('C13', 'bounded symbolic execution of rustc MIR: the same type universe exported under two dependency-visit orders '
                               '(symbolic permutation + duplication) must give byte-identical text; the same set of types merged into one file '
                               'under every export order must give the canonical file; hash-collection iteration order is symbolic')
    c03.setup()
    quick = TIER == 'quick'
    c03.G['time_budget'] = 2400 if quick else 9000
    items, cand = c03.run(rep, quick)
    c03.common_report_fields(rep, items)
    c03.confirm(rep, cand, only='order')
    imports_findings = [c for c in cand if not c['why'].startswith('output depends on the order')]
    if imports_findings:
        rep.part('note', text=f'{len(imports_findings)} import-specification finding(s) on these paths belong to C03 and are reported there')
    # shared files: order of exports
    c05.setup()
    c05.G['time_budget'] = 2400 if quick else 9000
    items5 = []
    for perm in ([0], [1]):
        items5.append(dict(k=2, doc0='fixed', body0=0, imps=[[1], [0, 2]], docs=[[0, 1], [0]], generic=[0], perms=perm))
    for perm in range(6):
        items5.append(dict(k=3, doc0='fixed', body0=0, imps=[[1], [0, 2], [0]], docs=[[0], [0], [0]], generic=[], perms=[perm]))
    res5 = par.pmap(c05.explore, items5)
    cand5 = []
    for r in res5:
        cand5 += r.pop('violations', [])
        r.pop('known_hits', None)
        rep.absorb(r)
    seen = {}
    for c in cand5:
        seen.setdefault(c['what'], c)
    for c in seen.values():
        is_viol, details = c05.native_confirm(c)
        c['native'] = details
        if is_viol:
            rep.violations.append({'what': f'shared file depends on export order: {c["what"]} (order {c["order"]}, names {c["names"]})',
                                   'witness': c, 'key': 'merge/' + c['what']})
        else:
            rep.inconclusive.append(f'engine counterexample does not reproduce natively: {c["what"]}')
    rep.functions += describe(c05.G['fns'], ['export_and_merge', 'merge'])
    rep.bounds['shared_file_orders'] = 'K=2 and K=3 types, every permutation, canonical file after every prefix (reduced C05 cells)'
    rep.outside += ['independent compilations / fresh macro processes as such', 'hash-order dependence inside the derive that changes a '
                    'generated *string* (only visit order and where-clause order consume Dependencies\' HashSet order at the pinned commit)',
                    'TS::dependencies() returns a Vec in visit order: not a string-returning function, not claimed']
    return rep.finish()


if __name__ == '__main__':
    run_main(main)
