"""C06 -- export results depend only on what was exported, not how or in what order.

Executed symbolically (real MIR): the three export entry points down to the file-system model (see props/fsworld.py) over a
universe {A, B share s.ts; C (own file) depends on A; D is not exportable}. A history is a symbolic sequence of calls (entry
point x type), with a symbolic spelling of the export directory and a symbolic initial directory content. Oracle: the
final directory equals the independently computed canonical contents for the set of types exported (closure for export_all).
"""
from .common import *
from . import fsworld as W
from .fsworld import TypeDef, o

G = W.G
CWD = '/tmp'
# spellings of one and the same directory <cwd>/bindings: prefix x middle x suffix (each a solver-decided choice), plus "unset"
PREFIXES = ['', './', '{CWD}/']
MIDDLES = ['', 'x/../', './/', 'x/y/../../']
SUFFIXES = ['', '/', '/.']
ENV_SPELLINGS = [None] + [p + m + 'bindings' + s for p in PREFIXES for m in MIDDLES for s in SUFFIXES]
TO_SPELLINGS = ['./bindings', 'bindings/', '{CWD}/bindings', './x/../bindings', '{CWD}/x/../bindings/']
ENTRIES = ['export', 'export_all', 'export_all_to']


def universe():
    return [TypeDef('A', 's.ts', [], '{ a: number, }'), TypeDef('B', 's.ts', [3], 'string'), TypeDef('C', 'C.ts', [0, 3], '{ a: A, }'),
            TypeDef('D', None)]


def sp(s, cwd=CWD):
    return None if s is None else s.replace('{CWD}', cwd)


def explore(item):
    cfg, nsteps, envs, tos, inits, fixed_first = item
    ex = Explorer(time_budget=G.get('time_budget'))
    tdefs = universe()
    envv, tov, initv = z3.Int('env_spelling'), z3.Int('to_spelling'), z3.Int('initial_fs')
    stepv = [(z3.Int(f'entry{k}'), z3.Int(f'type{k}')) for k in range(nsteps)]
    out = {'violations': [], 'samples': [], 'obligations': 0, 'discharged': 0, 'models': set(), 'inconclusive': []}
    bind = '/tmp/bindings'

    def harness(ctx):
        env = envs[ctx.pick(envv, len(envs))] if len(envs) > 1 else envs[0]
        to = tos[ctx.pick(tov, len(tos))] if len(tos) > 1 else tos[0]
        init = inits[ctx.pick(initv, len(inits))] if len(inits) > 1 else inits[0]
        m = W.machine(ctx, cfg, CWD, sp(env))
        W.install(m, tdefs)
        fs = m.env['fs']
        unrelated = {bind + '/keep.txt': 'unrelated'}
        if init != 'empty':
            fs.mkdirs(bind)
            fs.nodes[bind + '/keep.txt'] = ['file', o('unrelated')]
        if init == 'stale':
            fs.nodes[bind + '/s.ts'] = ['file', o(W.NOTE + '\nexport type Zold = { stale: true, };\n\nexport type Zolder = 1;\n')]
            fs.nodes[bind + '/C.ts'] = ['file', o('garbage that is much longer than anything the export will ever write into this file ' * 3)]
        if init == 'previous':
            for f, c in W.expected_fs(CWD, tdefs, {0: bind, 1: bind, 2: bind}, cfg == 'esm').items():
                fs.nodes[f] = ['file', o(c)]
        steps, exported, results = [], {}, []
        for k in range(nsteps):
            if k == 0 and fixed_first is not None:
                e, t = fixed_first
            else:
                e = ctx.pick(stepv[k][0], 3)
                t = ctx.pick(stepv[k][1], 4)
            entry = ENTRIES[e]
            steps.append((entry, t, sp(to) if entry == 'export_all_to' else None))
            r = W.call_entry(m, entry, t, sp(to))
            results.append(r)
            if r is None:
                for j in ([t] if entry == 'export' else W.closure(tdefs, t)):
                    exported[j] = bind
        out['models'].update(m.calls)
        return env, to, init, steps, results, exported, W.files_of(fs), unrelated

    try:
        for pc, (env, to, init, steps, results, exported, files, unrelated) in ex.run(harness):
            out['obligations'] += 1
            why = None
            for (entry, t, _), r in zip(steps, results):
                if r is not None and r[0] == 'panic':
                    why = f'{entry}({tdefs[t].name}) panics: {r[1]}'
                elif tdefs[t].out is None and r is None:
                    why = f'{entry}({tdefs[t].name}) succeeds although the type is not exportable'
                elif tdefs[t].out is not None and r is not None:
                    why = f'{entry}({tdefs[t].name}) fails: {r}'
            if why is None:
                want = W.expected_fs(CWD, tdefs, exported, cfg == 'esm')
                if init != 'empty':
                    want.update(unrelated)
                if init == 'stale' or init == 'previous':
                    # files that were present before and not re-exported in this process stay as they were
                    for f in ('/tmp/bindings/s.ts', '/tmp/bindings/C.ts'):
                        if f not in want:
                            want[f] = None
                got = dict(files)
                for f, c in list(want.items()):
                    if c is None:
                        got.pop(f, None)
                        want.pop(f)
                if got != want:
                    diff = sorted(set(got) ^ set(want)) or [f for f in want if got.get(f) != want[f]]
                    why = f'final directory differs from the canonical contents for the exported set {sorted(tdefs[i].name for i in exported)}: {diff[:3]}'
            if why is not None:
                if ex.check(pc) == z3.sat:
                    out['violations'].append({'cfg': cfg, 'env': env, 'to': to, 'init': init, 'steps': steps, 'why': why,
                                              'engine_files': files})
                continue
            out['discharged'] += 1
            if not out['samples'] and len(exported) >= 2:
                out['samples'].append({'env': env, 'to': to, 'init': init, 'steps': [(e, tdefs[t].name) for e, t, _ in steps],
                                       'files': sorted(files)})
    except Unsupported as e:
        out['inconclusive'].append(f'{item}: {e}')
    out.update(paths=ex.paths, nontrivial=ex.nontrivial, queries=ex.queries, solver_s=ex.solver_s)
    out['models'] = sorted(out['models'])
    return out


def explore_chdir(item):
    """two calls with the process changing its working directory in between: every relative spelling (the default `./bindings`, a
    relative export_all_to argument) means the directory below the working directory AT THE TIME OF THE CALL"""
    cfg, (e1, t1), (e2, t2), to = item
    ex = Explorer(time_budget=G.get('time_budget'))
    tdefs = universe()
    out = {'violations': [], 'samples': [], 'obligations': 0, 'discharged': 0, 'models': set(), 'inconclusive': []}
    cwds = [CWD, CWD + '/w2']

    def harness(ctx):
        m = W.machine(ctx, cfg, CWD, None)
        W.install(m, tdefs)
        fs = m.env['fs']
        results, per_dir = [], {}
        for k, (e, t) in enumerate(((e1, t1), (e2, t2))):
            if k == 1:
                fs.mkdirs(cwds[1])
                fs.cwd = cwds[1]
                m.env['cwd'] = o(cwds[1])
            r = W.call_entry(m, ENTRIES[e], t, to)
            results.append(r)
            if r is None:
                bind = W.norm_path(cwds[k], to if ENTRIES[e] == 'export_all_to' else 'bindings')
                for j in ([t] if ENTRIES[e] == 'export' else W.closure(tdefs, t)):
                    per_dir.setdefault(bind, {})[j] = bind
        out['models'].update(m.calls)
        return results, per_dir, W.files_of(fs)
    try:
        for pc, (results, per_dir, files) in ex.run(harness):
            out['obligations'] += 1
            why = None
            for (e, t), r in zip(((e1, t1), (e2, t2)), results):
                if r is not None and r[0] == 'panic':
                    why = f'{ENTRIES[e]}({tdefs[t].name}) panics: {r[1]}'
                elif (tdefs[t].out is None) != (r is not None):
                    why = f'{ENTRIES[e]}({tdefs[t].name}) -> {r}'
            if why is None:
                want = {}
                for bind, exported in per_dir.items():
                    want.update(W.expected_fs(CWD, tdefs, exported, cfg == 'esm'))
                if dict(files) != want:
                    diff = sorted(set(files) ^ set(want)) or [f for f in want if files.get(f) != want[f]]
                    why = f'after a change of the working directory the files are not where the calls asked for them: {diff[:4]}'
            if why is not None:
                out['violations'].append({'cfg': cfg, 'env': None, 'to': to, 'init': 'empty', 'chdir': cwds[1], 'why': why,
                                          'steps': [(ENTRIES[e1], t1, to), (ENTRIES[e2], t2, to)], 'engine_files': files})
            else:
                out['discharged'] += 1
    except Unsupported as e:
        out['inconclusive'].append(f'chdir {item}: {e}')
    out.update(paths=ex.paths, nontrivial=ex.nontrivial, queries=ex.queries, solver_s=ex.solver_s)
    out['models'] = sorted(out['models'])
    return out


def universe_chain():
    # the C06 universe plus F -> C -> A: a dependency chain of depth 2 (an intermediate type with dependencies of its own)
    return universe() + [TypeDef('F', 'F.ts', [2], '{ c: C, }')]


def explore_chain(item):
    """histories in which an intermediate type (C, which depends on A) was written by an earlier call before a root above it (F)
    is exported with its dependencies, and the other way round: the directory is the canonical one for the set exported"""
    cfg, hist = item
    ex = Explorer(time_budget=G.get('time_budget'))
    tdefs = universe_chain()
    out = {'violations': [], 'samples': [], 'obligations': 0, 'discharged': 0, 'models': set(), 'inconclusive': []}
    bind = CWD + '/bindings'

    def harness(ctx):
        m = W.machine(ctx, cfg, CWD, None)
        W.install(m, tdefs)
        results, exported = [], {}
        for e, t in hist:
            r = W.call_entry(m, ENTRIES[e], t, 'bindings')
            results.append(r)
            if r is None:
                for j in ([t] if ENTRIES[e] == 'export' else W.closure(tdefs, t)):
                    exported[j] = bind
        out['models'].update(m.calls)
        return results, exported, W.files_of(m.env['fs'])
    try:
        for pc, (results, exported, files) in ex.run(harness):
            out['obligations'] += 1
            why = None
            for (e, t), r in zip(hist, results):
                if r is not None:
                    why = f'{ENTRIES[e]}({tdefs[t].name}) -> {r}'
            if why is None:
                want = W.expected_fs(CWD, tdefs, exported, cfg == 'esm')
                if dict(files) != want:
                    diff = sorted(set(files) ^ set(want)) or [f for f in want if files.get(f) != want[f]]
                    why = f'final directory differs from the canonical contents for the exported set {sorted(tdefs[i].name for i in exported)}: {diff[:4]}'
            if why is not None:
                out['violations'].append({'cfg': cfg, 'env': None, 'to': 'bindings', 'init': 'empty', 'chain': True, 'why': why,
                                          'steps': [(ENTRIES[e], t, 'bindings') for e, t in hist], 'engine_files': files})
            else:
                out['discharged'] += 1
    except Unsupported as e:
        out['inconclusive'].append(f'chain {item}: {e}')
    out.update(paths=ex.paths, nontrivial=ex.nontrivial, queries=ex.queries, solver_s=ex.solver_s)
    out['models'] = sorted(out['models'])
    return out


CHAIN_ITEMS = [('plain', h) for h in ([(0, 2), (1, 4)], [(0, 2), (2, 4)], [(1, 4), (0, 2)], [(0, 4), (1, 4)], [(0, 2), (0, 4), (1, 4)], [(1, 2), (1, 4)])]


def native_check_chain(v):
    tdefs = universe_chain()
    steps = [(e, t, d if e == 'export_all_to' else None) for e, t, d in v['steps']]
    results, files = W.native_history(v['cfg'], None, tdefs, steps, None, [])
    exported, why = {}, None
    for (entry, t, d), r in zip(steps, results):
        if r[0] != 'ok':
            why = f'{entry}({tdefs[t].name}) -> {r} natively'
        else:
            for j in ([t] if entry == 'export' else W.closure(tdefs, t)):
                exported[j] = CWD + '/bindings'
    want = {f[len(CWD) + 1:]: c for f, c in W.expected_fs(CWD, tdefs, exported, v['cfg'] == 'esm').items()}
    if why is None and files != want:
        why = 'natively the directory differs from the canonical contents: ' + str(sorted(set(files) ^ set(want))[:4] or [f for f in want if files.get(f) != want[f]][:3])
    return why is not None, {'why': why, 'results': results, 'files': files}


def explore_symlink(item):
    """the export directory is reached through a directory symlink (`lnk -> real`): the files of every exported type end up in the
    real directory, whatever the order of the calls and whether the target file existed before"""
    cfg, (e1, t1), (e2, t2) = item
    ex = Explorer(time_budget=G.get('time_budget'))
    tdefs = universe()
    out = {'violations': [], 'samples': [], 'obligations': 0, 'discharged': 0, 'models': set(), 'inconclusive': []}
    real = CWD + '/real'

    def harness(ctx):
        m = W.machine(ctx, cfg, CWD, 'lnk')
        W.install(m, tdefs)
        fs = m.env['fs']
        fs.mkdirs(real)
        fs.nodes[CWD + '/lnk'] = ['link', real]
        results, exported = [], {}
        for e, t in ((e1, t1), (e2, t2)):
            r = W.call_entry(m, ENTRIES[e], t, 'lnk')
            results.append(r)
            if r is None:
                for j in ([t] if ENTRIES[e] == 'export' else W.closure(tdefs, t)):
                    exported[j] = real
        out['models'].update(m.calls)
        return results, exported, W.files_of(fs)
    try:
        for pc, (results, exported, files) in ex.run(harness):
            out['obligations'] += 1
            why = None
            for (e, t), r in zip(((e1, t1), (e2, t2)), results):
                if r is not None and r[0] == 'panic':
                    why = f'{ENTRIES[e]}({tdefs[t].name}) panics: {r[1]}'
                elif (tdefs[t].out is None) != (r is not None):
                    why = f'{ENTRIES[e]}({tdefs[t].name}) -> {r}'
            if why is None:
                want = W.expected_fs(CWD, tdefs, exported, cfg == 'esm')
                if dict(files) != want:
                    diff = sorted(set(files) ^ set(want)) or [f for f in want if files.get(f) != want[f]]
                    why = f'export directory behind a symlink: the directory differs from the canonical contents for {sorted(tdefs[i].name for i in exported)}: {diff[:4]}'
            if why is not None:
                out['violations'].append({'cfg': cfg, 'env': 'lnk', 'to': 'lnk', 'init': 'empty', 'symlink': True, 'why': why,
                                          'steps': [(ENTRIES[e1], t1, 'lnk'), (ENTRIES[e2], t2, 'lnk')], 'engine_files': files})
            else:
                out['discharged'] += 1
    except Unsupported as e:
        out['inconclusive'].append(f'symlink {item}: {e}')
    out.update(paths=ex.paths, nontrivial=ex.nontrivial, queries=ex.queries, solver_s=ex.solver_s)
    out['models'] = sorted(out['models'])
    return out


def native_check_symlink(v):
    tdefs = universe()
    steps = [(e, t, d if e == 'export_all_to' else None) for e, t, d in v['steps']]
    results, files = W.native_history(v['cfg'], None, tdefs, steps, 'lnk', [(0, 'mkdir', 'real'), (0, 'symlink', 'real', 'lnk')])
    exported, why = {}, None
    for (entry, t, d), r in zip(steps, results):
        if r[0] == 'panic':
            why = f'{entry}({tdefs[t].name}) panics natively: {r[1]}'
        elif r[0] == 'ok' and tdefs[t].out is not None:
            for j in ([t] if entry == 'export' else W.closure(tdefs, t)):
                exported[j] = CWD + '/real'
        elif (r[0] == 'ok') != (tdefs[t].out is not None):
            why = f'{entry}({tdefs[t].name}) -> {r} natively'
    want = {f[len(CWD) + 1:]: c for f, c in W.expected_fs(CWD, tdefs, exported, v['cfg'] == 'esm').items()}
    got = {f: c for f, c in files.items() if f.startswith('real/')}
    if why is None and got != want:
        why = 'natively the real directory differs from the canonical contents: ' + str(sorted(set(got) ^ set(want))[:4] or [f for f in want if got.get(f) != want[f]][:3])
    return why is not None, {'why': why, 'results': results, 'files': files}


def explore_envchange(item):
    """two calls with TS_RS_EXPORT_DIR changed in between: export() / export_all() write below the directory the variable names AT THE
    TIME OF THE CALL"""
    cfg, (e1, t1), (e2, t2) = item
    ex = Explorer(time_budget=G.get('time_budget'))
    tdefs = universe()
    out = {'violations': [], 'samples': [], 'obligations': 0, 'discharged': 0, 'models': set(), 'inconclusive': []}
    envs = ['b1', './b2/']

    def harness(ctx):
        m = W.machine(ctx, cfg, CWD, envs[0])
        W.install(m, tdefs)
        results, per_dir = [], {}
        for k, (e, t) in enumerate(((e1, t1), (e2, t2))):
            m.env['env'] = {'TS_RS_EXPORT_DIR': o(envs[k])}
            r = W.call_entry(m, ENTRIES[e], t, 'arg')
            results.append(r)
            if r is None:
                bind = W.norm_path(CWD, 'arg' if ENTRIES[e] == 'export_all_to' else envs[k])
                for j in ([t] if ENTRIES[e] == 'export' else W.closure(tdefs, t)):
                    per_dir.setdefault(bind, {})[j] = bind
        out['models'].update(m.calls)
        return results, per_dir, W.files_of(m.env['fs'])
    try:
        for pc, (results, per_dir, files) in ex.run(harness):
            out['obligations'] += 1
            why = None
            for (e, t), r in zip(((e1, t1), (e2, t2)), results):
                if r is not None and r[0] == 'panic':
                    why = f'{ENTRIES[e]}({tdefs[t].name}) panics: {r[1]}'
                elif (tdefs[t].out is None) != (r is not None):
                    why = f'{ENTRIES[e]}({tdefs[t].name}) -> {r}'
            if why is None:
                want = {}
                for bind, exported in per_dir.items():
                    want.update(W.expected_fs(CWD, tdefs, exported, cfg == 'esm'))
                if dict(files) != want:
                    diff = sorted(set(files) ^ set(want)) or [f for f in want if files.get(f) != want[f]]
                    why = f'after TS_RS_EXPORT_DIR changed the files are not where the calls asked for them: {diff[:4]}'
            if why is not None:
                out['violations'].append({'cfg': cfg, 'env': envs, 'to': 'arg', 'init': 'empty', 'envchange': True, 'why': why,
                                          'steps': [(ENTRIES[e1], t1, 'arg'), (ENTRIES[e2], t2, 'arg')], 'engine_files': files})
            else:
                out['discharged'] += 1
    except Unsupported as e:
        out['inconclusive'].append(f'envchange {item}: {e}')
    out.update(paths=ex.paths, nontrivial=ex.nontrivial, queries=ex.queries, solver_s=ex.solver_s)
    out['models'] = sorted(out['models'])
    return out


def native_check_envchange(v):
    import tempfile, shutil
    tdefs = universe()
    steps = [(e, t, d if e == 'export_all_to' else None) for e, t, d in v['steps']]
    scratch = tempfile.mkdtemp(prefix='tsrs-verif-env-')
    try:
        req = [['reset'], ['chdir', scratch]]
        for i, t in enumerate(tdefs):
            req.append(['cfg', str(i), t.name, t.decl, t.out if t.out is not None else '-', ','.join(map(str, t.deps))])
        marks = []
        for k, (e, t, d) in enumerate(steps):
            req.append(['setenv', 'TS_RS_EXPORT_DIR', v['env'][k]])
            marks.append(len(req))
            req.append([e, str(t)] + ([d] if e == 'export_all_to' else []))
        req.append(['fsdump', scratch])
        ans = G['native'][v['cfg']].batch(req, cwd=scratch)
        results = [ans[k] for k in marks]
        d_ = ans[-1]
        files = {p_: c for p_, c in zip(d_[1::2], d_[2::2]) if not p_.endswith('/')}
    finally:
        shutil.rmtree(scratch, ignore_errors=True)
    want, why = {}, None
    for k, ((entry, t, d), r) in enumerate(zip(steps, results)):
        if r[0] == 'panic':
            why = f'{entry}({tdefs[t].name}) panics natively: {r[1]}'
        elif r[0] == 'ok' and tdefs[t].out is not None:
            bind = W.norm_path(CWD, d if entry == 'export_all_to' else v['env'][k])
            want.update(W.expected_fs(CWD, tdefs, {j: bind for j in ([t] if entry == 'export' else W.closure(tdefs, t))}, v['cfg'] == 'esm'))
    if why is None and {f[len(CWD) + 1:]: c for f, c in want.items()} != files:
        why = 'natively the files are not where the calls asked for them: ' + str(sorted(set(files) ^ {f[len(CWD) + 1:] for f in want})[:4])
    return why is not None, {'why': why, 'results': results, 'files': files}


def native_check_chdir(v):
    tdefs = universe()
    steps = [(e, t, d if e == 'export_all_to' else None) for e, t, d in v['steps']]
    results, files = W.native_history(v['cfg'], None, tdefs, steps, None, [(1, 'mkdir', 'w2'), (1, 'chdir', 'w2')])
    want, why = {}, None
    for k, ((entry, t, d), r) in enumerate(zip(steps, results)):
        if r[0] == 'panic':
            why = f'{entry}({tdefs[t].name}) panics natively: {r[1]}'
        elif r[0] == 'ok' and tdefs[t].out is not None:
            bind = W.norm_path([CWD, CWD + '/w2'][k], d if entry == 'export_all_to' else 'bindings')
            exported = {j: bind for j in ([t] if entry == 'export' else W.closure(tdefs, t))}
            want.update(W.expected_fs(CWD, tdefs, exported, v['cfg'] == 'esm'))
        elif (r[0] == 'ok') != (tdefs[t].out is not None):
            why = f'{entry}({tdefs[t].name}) -> {r} natively'
    if why is None and {f[len(CWD) + 1:]: c for f, c in want.items()} != files:
        why = 'natively the files are not where the calls asked for them: ' + str(sorted(set(files) ^ {f[len(CWD) + 1:] for f in want})[:4])
    return why is not None, {'why': why, 'results': results, 'files': files}


def native_check(v):
    if v.get('chdir'):
        return native_check_chdir(v)
    if v.get('symlink'):
        return native_check_symlink(v)
    if v.get('chain'):
        return native_check_chain(v)
    if v.get('envchange'):
        return native_check_envchange(v)
    """replay the history natively; returns (is_violation, details)"""
    tdefs = universe()
    import tempfile
    pre = []
    if v['init'] != 'empty':
        pre += [(0, 'mkdir', 'bindings'), (0, 'mkfile', 'bindings/keep.txt', 'unrelated')]
    if v['init'] == 'stale':
        pre += [(0, 'mkfile', 'bindings/s.ts', W.NOTE + '\nexport type Zold = { stale: true, };\n\nexport type Zolder = 1;\n'),
                (0, 'mkfile', 'bindings/C.ts', 'garbage that is much longer than anything the export will ever write into this file ' * 3)]
    if v['init'] == 'previous':
        for f, c in W.expected_fs(CWD, tdefs, {0: '/tmp/bindings', 1: '/tmp/bindings', 2: '/tmp/bindings'}, v['cfg'] == 'esm').items():
            pre.append((0, 'mkfile', 'bindings/' + f.rsplit('/', 1)[1], c))
    steps = [(e, t, v['to'] if e == 'export_all_to' else None) for e, t, _ in v['steps']]
    results, files = W.native_history(v['cfg'], None, tdefs, steps, v['env'], pre)
    exported = {}
    why = None
    for (entry, t, _), r in zip(steps, results):
        if r[0] == 'panic':
            why = f'{entry}({tdefs[t].name}) panics natively: {r[1]}'
        elif r[0] == 'ok':
            if tdefs[t].out is None:
                why = f'{entry}({tdefs[t].name}) succeeds natively although not exportable'
            for j in ([t] if entry == 'export' else W.closure(tdefs, t)):
                exported[j] = '/tmp/bindings'
        elif tdefs[t].out is not None:
            why = f'{entry}({tdefs[t].name}) fails natively: {r}'
    if why is None:
        want = {('bindings/' + f.rsplit('/', 1)[1]): c for f, c in W.expected_fs(CWD, tdefs, exported, v['cfg'] == 'esm').items()}
        got = {f: c for f, c in files.items() if f != 'bindings/keep.txt'}
        if v['init'] in ('stale', 'previous'):
            for f in ('bindings/s.ts', 'bindings/C.ts'):
                if f not in want:
                    got.pop(f, None)
        if got != want:
            why = 'native final directory differs from the canonical contents'
        if v['init'] != 'empty' and files.get('bindings/keep.txt') != 'unrelated':
            why = 'unrelated file touched'
    return why is not None, {'why': why, 'results': results, 'files': files}


def main():
    rep = report.Report('C06', 'bounded symbolic execution of rustc MIR: histories of export entry-point calls over a type universe and a '
                               'file-system/registry model, with the history, the directory spelling and the initial contents as solver-decided '
                               'case splits; on every path the final directory is compared with independently computed canonical contents')
    W.setup()
    quick = TIER == 'quick'
    G['time_budget'] = 2400 if quick else 9000
    fns = G['fns']['plain']
    names = ['TS::export', 'TS::export_all', 'TS::export_all_to', 'TS::default_output_path', 'export_all_into', 'export_recursive', 'export_into',
             'export_to', 'export_to_string', 'generate_imports', 'generate_decl', 'export_and_merge', 'merge', 'default_out_dir',
             'export::path::absolute', 'diff_paths', 'import_path'] + fn_names(fns, '>::visit', 'recursive_export')
    rep.functions = describe(fns, [n for n in names if n in fns])
    rep.configs = ['ts-rs: default features'] + ([] if quick else ['ts-rs: import-esm'])
    items = []
    if quick:
        for e in range(3):
            for t in range(4):
                items.append(('plain', 2, ENV_SPELLINGS, TO_SPELLINGS[:3] if e == 2 else TO_SPELLINGS[3:], ['empty', 'stale'], (e, t)))
        for e in range(3):
            for t in (0, 1, 2):
                items.append(('plain', 3, [None, './bindings/', '{CWD}/x/../bindings'], ['bindings/'], ['empty'], (e, t)))
    else:
        # (both configurations x every spelling x 3 initial states x 2- and 3-step histories) ran past 45 minutes: the esm configuration
        # only changes import suffixes and gets a reduced grid
        for e in range(3):
            for t in range(4):
                items.append(('plain', 2, ENV_SPELLINGS, TO_SPELLINGS, ['empty', 'stale', 'previous'], (e, t)))
                items.append(('plain', 3, [None, './bindings/', '{CWD}/x/../bindings', 'x/y/../../bindings/.'], TO_SPELLINGS[:2] + TO_SPELLINGS[4:], ['empty'], (e, t)))
                items.append(('esm', 2, [None, './bindings/'], TO_SPELLINGS[:2], ['empty'], (e, t)))
    rep.bounds = {'universe': 'A, B -> s.ts (B visits the non-exportable D); C -> C.ts depends on A and D; D not exportable',
                  'history_length': sorted({i[1] for i in items}), 'entry_points': ENTRIES,
                  'TS_RS_EXPORT_DIR spellings of <cwd>/bindings': ENV_SPELLINGS, 'export_all_to spellings': TO_SPELLINGS,
                  'initial_directory': ['empty', 'stale files at the targets (+ unrelated file)', 'previous run\'s output'], 'cells': len(items)}
    rep.outside += ['symlinks other than a directory link naming the export directory (file links, links inside the tree, `..` behind a link)', 'more than one change of the working directory', 'histories longer than the bound',
                    'other universes (more types per file: C05)']
    rep.assumptions += ['file-system model: POSIX semantics without symlinks, validated against the real file system through the native helper',
                        'type names are concrete in this check (the registry and file names are keyed by them)']
    validate(rep, 6 if quick else 40)
    chdir_items = [('plain', a, b, to) for a in ((0, 0), (1, 2), (2, 2)) for b in ((0, 1), (1, 2), (2, 0)) for to in (['out'] if quick else ['out', './o/../out/'])]
    rep.bounds['change_of_working_directory'] = f'{len(chdir_items)} two-call histories with a chdir in between, default directory and a relative export_all_to argument'
    symlink_items = [('plain', a, b) for a in ((0, 0), (0, 1), (1, 2), (2, 2)) for b in ((0, 1), (0, 0), (2, 1), (1, 2))]
    rep.bounds['export_directory_behind_a_symlink'] = f'{len(symlink_items)} two-call histories with TS_RS_EXPORT_DIR / the export_all_to argument naming a directory symlink'
    rep.bounds['change_of_TS_RS_EXPORT_DIR'] = '8 two-call histories with the variable changed in between'
    rep.bounds['dependency_chain_histories'] = f'{len(CHAIN_ITEMS)} histories over F -> C -> A in which the intermediate type is written before / after the root'
    results = par.pmap(explore, items) + par.pmap(explore_chdir, chdir_items) + par.pmap(explore_symlink, symlink_items) + par.pmap(explore_chain, CHAIN_ITEMS) \
        + par.pmap(explore_envchange, [('plain', a, b) for a in ((0, 0), (1, 2)) for b in ((0, 1), (1, 2), (2, 2), (0, 0))])
    cand = []
    for r in results:
        cand += r.pop('violations', [])
        rep.absorb(r)
    seen = {}
    for c in cand:
        seen.setdefault(re.sub(r'\[.*', '', c['why'])[:60], c)
    for c in list(seen.values())[:6]:
        is_viol, details = native_check(c)
        c['native'] = details
        if is_viol:
            rep.violations.append({'what': f'{c["why"]} | history {[(e, universe()[t].name) for e, t, _ in c["steps"]]} env={c["env"]} '
                                           f'to={c["to"]} init={c["init"]} | native: {details["why"]}', 'witness': c, 'key': c['why'][:60]})
        else:
            rep.inconclusive.append(f'engine counterexample does not reproduce natively: {c["why"]} {c["steps"]} env={c["env"]}')
    return rep.finish()


def validate(rep, count):
    """translator validation of the whole stack: random histories, engine (FS model) vs the real file system"""
    rnd = random.Random(SEED)
    tdefs = universe()
    bad = n = 0
    for _ in range(count):
        env = rnd.choice(ENV_SPELLINGS)
        to = rnd.choice(TO_SPELLINGS)
        init = rnd.choice(['empty', 'stale'])
        steps = [(rnd.choice(ENTRIES), rnd.randint(0, 3)) for _ in range(rnd.randint(1, 3))]
        v = {'cfg': 'plain', 'env': env, 'to': to, 'init': init, 'steps': [(e, t, None) for e, t in steps]}
        ex = Explorer()

        def h(ctx):
            m = W.machine(ctx, 'plain', CWD, sp(env))
            W.install(m, tdefs)
            fs = m.env['fs']
            if init == 'stale':
                fs.mkdirs('/tmp/bindings')
                fs.nodes['/tmp/bindings/keep.txt'] = ['file', o('unrelated')]
                fs.nodes['/tmp/bindings/s.ts'] = ['file', o(W.NOTE + '\nexport type Zold = { stale: true, };\n\nexport type Zolder = 1;\n')]
                fs.nodes['/tmp/bindings/C.ts'] = ['file', o('garbage that is much longer than anything the export will ever write into this file ' * 3)]
            res = []
            for e, t in steps:
                r = W.call_entry(m, e, t, sp(to))
                res.append('ok' if r is None else r[0])
            return res, {k[len('/tmp/'):]: c for k, c in W.files_of(fs).items()}
        try:
            eres, efiles = ex.run(h)[0][1]
        except Unsupported as e:
            rep.inconclusive.append(f'validation: engine cannot run history {steps}: {e}')
            return
        _, det = native_check(v)
        nres = [r[0] for r in det['results']]
        n += 1
        if eres != nres or efiles != det['files']:
            bad += 1
            if bad <= 2:
                rep.inconclusive.append(f'translator validation mismatch for history {steps} env={env} to={to} init={init}: engine {eres} '
                                        f'{sorted(efiles)} vs native {nres} {sorted(det["files"])}')
    rep.validated('export histories: FS model vs real file system', n, bad)


if __name__ == '__main__':
    run_main(main)
