"""shared plumbing for the per-property harnesses"""
import os
import random
import re
import sys
import time

import z3

from mirsym import build, interp, mirparse, par, report, srcinfo
from mirsym import unicode as U
from mirsym import models, models2, models3, models4, models_syn   # noqa: registers the std models, in this order
from mirsym.interp import (Explorer, Machine, RStr, Enum, Struct, Ref, ValRef, Lazy, Panic, Infeasible, is_sym, bv, CH)
from mirsym.mirparse import Unsupported
from mirsym.models import MODELS

REPO = build.REPO
TIER = 'thorough' if os.environ.get('VERIF_TIER', 'quick') == 'thorough' else 'quick'
try:
    SEED = int(os.environ.get('VERIF_SEED', '0'))
except ValueError:
    SEED = 0


def S(text):
    return RStr([ord(c) if isinstance(c, str) else c for c in text])


def show(cs, mdl=None):
    """render a char list under a model (symbolic chars are evaluated, with completion)"""
    out = []
    for c in (cs.cs if isinstance(cs, RStr) else cs):
        if is_sym(c):
            if mdl is None:
                out.append('?')
                continue
            c = mdl.eval(c, model_completion=True).as_long()
        out.append(chr(c))
    return ''.join(out)


def neq_strings(a, b):
    """z3 condition 'the two char lists differ' (lengths are concrete)"""
    if len(a) != len(b):
        return z3.BoolVal(True)
    diffs = []
    for x, y in zip(a, b):
        if is_sym(x) or is_sym(y):
            diffs.append(bv(x, CH) != bv(y, CH))
        elif x != y:
            return z3.BoolVal(True)
    return z3.Or(diffs) if diffs else z3.BoolVal(False)


def eq_const(cs, text):
    """z3 condition 'char list equals the python string'"""
    if len(cs) != len(text):
        return z3.BoolVal(False)
    conj = []
    for x, ch in zip(cs, text):
        if is_sym(x):
            conj.append(x == z3.BitVecVal(ord(ch), CH))
        elif x != ord(ch):
            return z3.BoolVal(False)
    return z3.And(conj) if conj else z3.BoolVal(True)


def fn_names(fns, suffix, contains=''):
    return [k for k, f in fns.items() if hasattr(f, 'blocks') and k.endswith(suffix) and contains in k and not k.startswith('const ')]


def one_fn(fns, suffix, contains=''):
    hits = fn_names(fns, suffix, contains)
    if len(hits) != 1:
        raise Unsupported(f'expected exactly one function *{suffix} (containing {contains!r}) in the MIR dump, found {hits}')
    return hits[0]


def fn_hash(fns, name):
    import hashlib
    return hashlib.sha256(fns[name].text.encode()).hexdigest()[:12]


def describe(fns, names):
    # functions that a refactor removed or renamed are listed as absent rather than crashing the report
    return [{'fn': n, 'mir_sha': fn_hash(fns, n), 'mir_lines': fns[n].text.count('\n')} if n in fns and hasattr(fns[n], 'text') else {'fn': n, 'absent': True}
            for n in names]


def ident_ok(ch, first):
    """may the non-ASCII scalar `ch` occur in a Rust identifier? (XID_Start / XID_Continue via Python's tables)"""
    c = chr(ch)
    return c.isidentifier() if first else ('a' + c).isidentifier()


def run_main(main):
    """common entry: converts engine exceptions into the inconclusive exit code"""
    try:
        code = main()
    except build.BuildError as e:
        print('INCONCLUSIVE build: ' + str(e)[-3000:])
        code = 2
    except Unsupported as e:
        print('INCONCLUSIVE engine: ' + str(e)[:3000])
        code = 2
    sys.exit(code)
