"""C09 -- rename_all yields the names serde puts on the wire, for every identifier.

Executed symbolically (real MIR): the Inflection method ts-rs calls for fields (named.rs) and the one it calls for
variants (enum.rs), and serde_derive's own RenameRule::apply_to_field / apply_to_variant (oracle, same engine);
StructAttr::from_variant for the routing of rename_all_fields / variant rename_all.
"""
import itertools

from .common import *

RULES = ['lowercase', 'UPPERCASE', 'camelCase', 'snake_case', 'PascalCase', 'SCREAMING_SNAKE_CASE', 'kebab-case',
         'SCREAMING-KEBAB-CASE']
TS_VARIANT = {'lowercase': 'Lower', 'UPPERCASE': 'Upper', 'camelCase': 'Camel', 'snake_case': 'Snake', 'PascalCase': 'Pascal',
              'SCREAMING_SNAKE_CASE': 'ScreamingSnake', 'kebab-case': 'Kebab', 'SCREAMING-KEBAB-CASE': 'ScreamingKebab'}
SD_VARIANT = {'lowercase': 'LowerCase', 'UPPERCASE': 'UpperCase', 'camelCase': 'CamelCase', 'snake_case': 'SnakeCase',
              'PascalCase': 'PascalCase', 'SCREAMING_SNAKE_CASE': 'ScreamingSnakeCase', 'kebab-case': 'KebabCase',
              'SCREAMING-KEBAB-CASE': 'ScreamingKebabCase'}

G = {}   # globals prepared by main() and inherited by the forked workers


def locate(fns):
    """the Inflection methods the derive actually calls for fields / variants, read from the call sites"""
    def callee_in(fn_suffix, contains):
        name = one_fn(fns, fn_suffix, contains)
        calls = set(re.findall(r'= Inflection::(\w+)\(', fns[name].text))
        if len(calls) != 1:
            raise Unsupported(f'{name}: expected one Inflection::* call site kind, found {sorted(calls)}')
        return calls.pop(), name
    f_meth, f_site = callee_in('format_field', 'named')
    v_meth, v_site = callee_in('format_variant', '')
    ts_field = one_fn(fns, '>::' + f_meth, 'attr')
    ts_variant = one_fn(fns, '>::' + v_meth, 'attr')
    return ts_field, ts_variant, f_site, v_site


def setup():
    fns = dict(build.parsed(build.macros_mir(('serde-compat',))))
    omir, ver = build.serde_case_mir()
    ofns = build.parsed(omir)
    for k, v in ofns.items():
        fns.setdefault(k, v)
    enums, structs = srcinfo.scan([os.path.join(REPO, 'macros', 'src'), build.serde_case_path()[0]])
    G['fns'] = fns
    G['enums'] = enums
    G['structs'] = structs
    G['ts_field'], G['ts_variant'], G['f_site'], G['v_site'] = locate(fns)
    G['sd_field'] = one_fn(fns, '::apply_to_field', 'case')
    G['sd_variant'] = one_fn(fns, '::apply_to_variant', 'case')
    G['serde_ver'] = ver
    G['native'] = build.Native('macros')
    U.load(G['native'])
    G['sample_first'] = [c for c in U.TABLE if ident_ok(c, True)]
    G['sample_rest'] = [c for c in U.TABLE if ident_ok(c, False)]


def ident_domain(chars, nonascii):
    dom = []
    for i, c in enumerate(chars):
        digit = z3.And(z3.UGE(c, 48), z3.ULE(c, 57))
        ascii_id = z3.Or(digit, z3.And(z3.UGE(c, 65), z3.ULE(c, 90)), z3.And(z3.UGE(c, 97), z3.ULE(c, 122)), c == 95)
        if i == 0:
            ascii_id = z3.And(ascii_id, z3.Not(digit))
        alts = [ascii_id]
        if nonascii:
            alts += [c == z3.BitVecVal(s, CH) for s in (G['sample_first'] if i == 0 else G['sample_rest'])]
        dom.append(z3.Or(alts))
    if len(chars) == 1:
        dom.append(chars[0] != 95)          # `_` alone is not an identifier
    return dom


def call(m, fname, enum_name, variant, s):
    idx = G['enums'][enum_name].index(variant)
    try:
        return ('ok', m.exec_fn(G['fns'][fname], [Enum(idx, [], variant), ValRef(s)]))
    except Panic as e:
        return ('panic', str(e))


def explore(item):
    pos, rule, n, nonascii = item
    ts_fn = G['ts_field'] if pos == 'field' else G['ts_variant']
    sd_fn = G['sd_field'] if pos == 'field' else G['sd_variant']
    chars = [z3.BitVec(f'c{i}', CH) for i in range(n)]
    ex = Explorer(time_budget=G.get('time_budget'))
    ex.solver.add(*ident_domain(chars, nonascii))
    out = {'violations': [], 'samples': [], 'obligations': 0, 'discharged': 0, 'models': set(), 'inconclusive': []}

    def harness(ctx):
        m = Machine(G['fns'], MODELS, ctx, G['enums'])
        s = RStr(chars)
        a = call(m, ts_fn, 'Inflection', TS_VARIANT[rule], s)
        b = call(m, sd_fn, 'RenameRule', SD_VARIANT[rule], s)
        out['models'].update(m.calls)
        return a, b

    try:
        res = ex.run(harness)
        for pc, (a, b) in res:
            if b[0] == 'panic':
                continue            # serde_derive itself panics on this identifier: outside the fragment
            out['obligations'] += 1
            bad = z3.BoolVal(True) if a[0] == 'panic' else neq_strings(a[1].cs, b[1].cs)
            if ex.check(pc + [bad]) == z3.sat:
                mdl = ex.model()
                w = show(chars, mdl)
                out['violations'].append({'pos': pos, 'rule': rule, 'ident': w,
                                          'engine_ts': a[0] if a[0] == 'panic' else show(a[1], mdl),
                                          'engine_serde': show(b[1], mdl)})
            else:
                out['discharged'] += 1
                if len(out['samples']) < 1 and pc and ex.check(pc) == z3.sat:
                    mdl = ex.model()
                    out['samples'].append({'pos': pos, 'rule': rule, 'ident': show(chars, mdl), 'name': show(a[1], mdl),
                                           'path_condition_size': len(pc)})
    except Unsupported as e:
        out['inconclusive'].append(f'{pos}/{rule}/n={n}: {e}')
    out.update(paths=ex.paths, nontrivial=ex.nontrivial, queries=ex.queries, solver_s=ex.solver_s)
    out['models'] = sorted(out['models'])
    return out


def concrete(pos, rule, ident):
    """run both real functions in the engine on a concrete identifier"""
    ex = Explorer()
    s = S(ident)

    def h(ctx):
        m = Machine(G['fns'], MODELS, ctx, G['enums'])
        a = call(m, G['ts_field'] if pos == 'field' else G['ts_variant'], 'Inflection', TS_VARIANT[rule], s)
        b = call(m, G['sd_field'] if pos == 'field' else G['sd_variant'], 'RenameRule', SD_VARIANT[rule], s)
        return a, b
    res = ex.run(h)
    assert len(res) == 1
    a, b = res[0][1]
    f = lambda r: 'panic' if r[0] == 'panic' else 'ok\t' + show(r[1])
    return f(a), f(b)


def validation_inputs(rnd, count):
    base = ['foo_bar', 'fooBar', 'FooBar', 'foo', 'Foo', '_foo', 'foo_', 'foo__bar', '__', 'a1', 'A1b', 'HTTPServer', 'x',
            'X', 'field_one', 'VeryLongVariantName', 'éa', 'Éa', 'aÉ', 'ß', 'a中b', 'ǅx', 'İ', 'ı_a', 'KebabCase',
            'A_B', 'aB_cD', 'r2d2', '_1']
    alpha = 'abzABZ09__' + ''.join(chr(c) for c in G['sample_rest'])
    for _ in range(count):
        n = rnd.randint(1, 8)
        w = ''.join(rnd.choice(alpha) for _ in range(n))
        if w[0].isdigit() or not ident_ok(ord(w[0]), True) and ord(w[0]) > 127 or w == '_':
            w = 'a' + w
        base.append(w)
    return base


def validate(rep, count):
    """translator validation: engine (concrete mode) vs natively compiled code, ts-rs and serde side"""
    rnd = random.Random(SEED)
    idents = validation_inputs(rnd, count)
    cases = [(p, r, w) for w in idents for p in ('field', 'variant') for r in (rnd.sample(RULES, 3) if len(idents) > 60 else RULES)]
    req = []
    for p, r, w in cases:
        req.append(['inflect', r, p, w])
        req.append(['serde_case', r, p, w])
    ans = G['native'].batch(req)
    bad = 0
    for i, (p, r, w) in enumerate(cases):
        nt, ns = ans[2 * i], ans[2 * i + 1]
        try:
            et, es = concrete(p, r, w)
        except Unsupported as e:
            rep.inconclusive.append(f'validation: engine cannot run {p}/{r}/{w!r}: {e}')
            return
        nat_t = 'panic' if nt[0] == 'panic' else 'ok\t' + nt[1]
        nat_s = 'panic' if ns[0] == 'panic' else 'ok\t' + ns[1]
        if nt[0] == 'err':
            rep.inconclusive.append(f'validation: native helper error {nt}')
            return
        if et != nat_t or es != nat_s:
            bad += 1
            if bad <= 5:
                rep.inconclusive.append(f'translator validation mismatch {p}/{r}/{w!r}: engine ts={et!r} native ts={nat_t!r} '
                                        f'engine serde={es!r} native serde={nat_s!r}')
    rep.validated('Inflection vs native (ts-rs and serde_derive)', len(cases), bad)


# ------------------------------------------------------------------------------------------ from_variant routing
def from_variant_part(rep):
    """StructAttr::from_variant: effective rule = variant.rename_all, else rename_all_fields for named variants only"""
    fns = G['fns']
    name = one_fn(fns, '>::from_variant', 'struct')
    st = G['structs']
    ex = Explorer()
    infl = lambda tag: Enum(z3.If(z3.Bool(tag + '.some'), z3.BitVecVal(1, 64), z3.BitVecVal(0, 64)),
                            [Enum(z3.BitVec(tag + '.rule', 64), [], 'Inflection?')], 'Option?')
    for tag in ('v.rename_all', 'e.rename_all_fields'):
        ex.solver.add(z3.ULT(z3.BitVec(tag + '.rule', 64), 8))
    kind = z3.BitVec('fields.kind', 64)           # syn::Fields { Named, Unnamed, Unit }
    ex.solver.add(z3.ULT(kind, 3))
    results = []

    def harness(ctx):
        m = Machine(fns, MODELS, ctx, G['enums'])
        m.struct_fields = st
        m.stubs = [(re.compile(r'crate_rename$'), lambda mm, c, a: models.Opaque('crate_rename'))]
        e_attr = Lazy('enum_attr')
        e_attr.parts[st['EnumAttr'].index('rename_all_fields')] = infl('e.rename_all_fields')
        # tag/untagged/content stay lazy: tagged() is explored for all of them
        v_attr = Lazy('variant_attr')
        v_attr.parts[st['VariantAttr'].index('rename_all')] = infl('v.rename_all')
        fields = Enum(kind, [Lazy('fields.payload')], 'Fields?')
        try:
            r = m.exec_fn(fns[name], [ValRef(e_attr), ValRef(v_attr), ValRef(fields)])
        except Panic as e:
            return ('panic', str(e))
        return ('ok', r.fields[st['StructAttr'].index('rename_all')])
    try:
        res = ex.run(harness)
    except Unsupported as e:
        rep.inconclusive.append(f'from_variant: {e}')
        return
    viol = 0
    vs, es, vr, er = z3.Bool('v.rename_all.some'), z3.Bool('e.rename_all_fields.some'), z3.BitVec('v.rename_all.rule', 64), \
        z3.BitVec('e.rename_all_fields.rule', 64)
    named = kind == 0
    obligations = discharged = 0
    for pc, (k, v) in res:
        if k == 'panic':
            continue      # the expect() on tagged(): C16's subject
        obligations += 1
        exp_some = z3.Or(vs, z3.And(named, es))
        exp_rule = z3.If(vs, vr, er)
        got_some = (v.disc == z3.BitVecVal(1, 64)) if is_sym(v.disc) else z3.BoolVal(v.disc == 1)
        inner = v.fields[0] if v.fields else None
        got_rule = inner.disc if isinstance(inner, Enum) else None
        bad = [got_some != exp_some]
        if got_rule is not None:
            bad.append(z3.And(got_some, exp_some, bv(got_rule, 64) != exp_rule))
        if ex.check(pc + [z3.Or(bad)]) == z3.sat:
            mdl = ex.model()
            rep.violations.append({'what': 'from_variant routes rename_all differently from serde',
                                   'witness': {str(d): str(mdl[d]) for d in mdl.decls()}, 'key': 'from_variant'})
            viol += 1
        else:
            discharged += 1
    rep.absorb(dict(paths=ex.paths, nontrivial=ex.nontrivial, queries=ex.queries, solver_s=ex.solver_s,
                    obligations=obligations, discharged=discharged))
    rep.part('from_variant', paths=ex.paths, obligations=obligations, violations=viol)
    rep.functions += describe(fns, [name])


# what serde writes for the corpus items that combine rename_all / rename_all_fields / explicit renames (read off serde_derive's rules:
# an explicit rename wins over every rule; the enum's rename_all renames variants only; rename_all_fields renames the fields of struct
# variants unless the variant has its own rename_all; raw identifiers lose `r#` first).  `$T` is the abstract parameter.
ROUTING = [
    ('RN1', '{ keep: $T, BB: $T, TYPE: $T }'),
    ('RN2', '{ "Keep": $T } | { "bb": { cc_dd: $T } } | "ccdd"'),
    ('RN3', '{ "fooBar": { BAZ_QUX: $T } } | { "quuxCorge": { "grault-x": $T, own: $T } }'),
    ('RN4', '{ "kind": "HTTP_SERVER", port_no: $T } | { "kind": "V2_BETA" }'),
    ('RN5', '{ "http-server2": $T, "-lead": $T, "trail-": $T, a: $T }'),
]


def routing_part(rep):
    """Tier B: the derive-generated inline() of the ROUTING corpus items, with the type argument abstract, parsed and normalised
    (props/tsparse.py), equals the binding serde's naming rules prescribe"""
    from . import tyres
    from . import tsparse as TP
    tyres.setup()
    TG = tyres.G
    cand = []
    for name, want in ROUTING:
        if name not in TG['corpus']:
            rep.inconclusive.append(f'routing: corpus item {name} missing')
            continue
        ex = Explorer()

        def h(ctx):
            r = tyres.Resolver(['T'])
            m = tyres.machine(ctx, r)
            return list(m.call(f'<{name}<T> as TS>::inline', []).cs)
        try:
            res = ex.run(h)
        except (Unsupported, Panic) as e:
            rep.inconclusive.append(f'routing {name}: {e}')
            continue
        rep.absorb(dict(paths=ex.paths, nontrivial=ex.paths, queries=ex.queries, solver_s=ex.solver_s))
        for pc, rope in res:
            rep.obligations += 1
            try:
                got = TP.show(TP.normalize(TP.parse(rope)))
            except TP.ParseError as e:
                got = f'<not a TypeScript type: {e}>'
            exp = TP.show(TP.normalize(TP.parse_text(want)))
            if got != exp:
                cand.append((name, got, exp, tyres.show_rope(rope)))
            else:
                rep.discharged += 1
    if cand:
        from . import c07
        nat = {k_: v for k_, v in c07.native_probe(rep).items() if v[0] == 'ok'}
        for name, got, exp, text in cand:
            confirmed = None
            if (name, 'inline') in nat:
                try:
                    ng = TP.show(TP.normalize(TP.parse([ord(c) for c in nat[name, 'inline'][1]])))
                    confirmed = ng != TP.show(TP.normalize(TP.parse_text(dict(ROUTING)[name].replace('$T', 'Arg1'))))
                except TP.ParseError:
                    confirmed = True
            if confirmed is False:
                rep.inconclusive.append(f'engine finding does not reproduce natively: routing {name}: {got}')
            else:
                rep.violations.append({'what': f'{TG["corpus"][name]["src"]}: bound as {got}, serde writes {exp}',
                                       'witness': {'item': name, 'text': text, 'native': nat.get((name, 'inline'))}, 'key': f'routing/{name}'})
    rep.part('naming rules routed through the derive (tier B corpus RN1..RN5)', items=len(ROUTING))


def main():
    rep = report.Report('C09', 'bounded symbolic execution of rustc MIR: ts-rs Inflection methods and serde_derive case.rs run on one '
                               'symbolic identifier per (rule, position, length); z3 decides equality of the two results on every path')
    setup()
    fns = G['fns']
    N, NU = (5, 3) if TIER == 'quick' else (7, 4)       # (8, 5) ran past 45 minutes on 16 cores
    G['time_budget'] = 1500 if TIER == 'quick' else 7000
    rep.functions = describe(fns, [G['ts_field'], G['ts_variant'], G['sd_field'], G['sd_variant']])
    rep.configs = ['ts-rs-macros: serde-compat', f'oracle: serde_derive {G["serde_ver"]} internals/case.rs (from Cargo.lock)']
    rep.bounds = {'rules': RULES, 'positions': ['field (incl. fields of struct variants)', 'variant'],
                  'identifier_length_ascii_alphabet': f'1..{N} over [A-Za-z0-9_] (no leading digit, not `_` alone)',
                  'identifier_length_with_non_ascii': f'1..{NU} over ASCII identifiers + {len(G["sample_rest"])} sampled non-ASCII XID scalars '
                                                      f'{[hex(c) for c in G["sample_rest"]]}',
                  'call_sites': [G['f_site'], G['v_site']]}
    rep.outside += ['identifiers longer than the bound', 'non-ASCII scalars outside the sample', 'identifiers serde_derive itself '
                    'panics on (non-ASCII first char / empty PascalCase form under camelCase)', 'raw identifiers (r# is stripped before '
                    'the rule is applied; covered by C04/to_ts_ident)']
    rep.assumptions += ['std models listed in std_models_used are faithful (validated below against the native build)',
                        'serde_derive applies apply_to_field to struct fields and struct-variant fields and apply_to_variant to variants']
    validate(rep, 40 if TIER == 'quick' else 400)
    items = [(p, r, n, False) for p in ('field', 'variant') for r in RULES for n in range(1, N + 1)]
    items += [(p, r, n, True) for p in ('field', 'variant') for r in RULES for n in range(1, NU + 1)]
    items.sort(key=lambda it: -it[2] - (3 if it[3] else 0))
    results = par.pmap(explore, items)
    cand = []
    for r in results:
        cand += r.pop('violations', [])
        rep.absorb(r)
    # replay candidates natively: only a reproduced divergence is a violation
    seen = {}
    for c in cand:
        seen.setdefault((c['pos'], c['rule']), c)
    if seen:
        req = []
        for c in seen.values():
            req.append(['inflect', c['rule'], c['pos'], c['ident']])
            req.append(['serde_case', c['rule'], c['pos'], c['ident']])
        ans = G['native'].batch(req)
        for i, c in enumerate(seen.values()):
            nt, ns = ans[2 * i], ans[2 * i + 1]
            c['native_ts'], c['native_serde'] = nt, ns
            if ns[0] == 'ok' and (nt[0] != 'ok' or nt[1] != ns[1]):
                rep.violations.append({'what': f'{c["pos"]} `{c["ident"]}` under rename_all = "{c["rule"]}": ts-rs binds '
                                               f'{nt[1:] if nt[0] == "ok" else nt} but serde emits {ns[1]!r}',
                                       'witness': c, 'key': f'{c["pos"]}/{c["rule"]}'})
            else:
                rep.inconclusive.append(f'engine counterexample does not reproduce natively (model divergence): {c}')
    from_variant_part(rep)
    try:
        routing_part(rep)
    except Unsupported as e:
        rep.inconclusive.append(f'routing part: {e}')
    return rep.finish()


def replay(path):
    import json
    setup()
    w = json.load(open(path))['witness']
    nt = G['native'].one('inflect', w['rule'], w['pos'], w['ident'])
    ns = G['native'].one('serde_case', w['rule'], w['pos'], w['ident'])
    print('ts-rs :', nt)
    print('serde :', ns)
    return 1 if (ns[0] == 'ok' and nt != ns) else 0


if __name__ == '__main__':
    if len(sys.argv) > 2 and sys.argv[1] == '--replay':
        sys.exit(replay(sys.argv[2]))
    run_main(main)
