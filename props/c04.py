"""C04 -- exported files are well-formed modules holding exactly the requested types (lexical well-formedness).

Executed symbolically (real MIR):
  * raw_name_to_ts_field on all names up to a length bound: the result is an IdentifierName equal to the name, or a closed
    double-quoted literal that decodes to the name;
  * to_ts_ident: raw identifiers lose exactly their `r#`;
  * export_to_string / generate_decl over the type universe with DOCS and decl() as uninterpreted holes: the file is
    NOTE ++ imports ++ "\\n" ++ DOCS? ++ "export " ++ decl ++ "\\n" -- one declaration, ends in a newline.
"parses under an independent TypeScript grammar" is reduced to these lexical conditions (DESIGN.md 4, C04).
"""
from .common import *
from . import c03, c08, c16
from mirsym.universe import Universe, UType

G = {}
ALPHA = 'aA_$0- "\\\n\r/'


def setup():
    c16.setup()
    G.update(c16.G)
    G['to_ts_ident'] = one_fn(G['fns'], 'to_ts_ident')
    # non-ASCII sample chars: may they occur in an ECMAScript IdentifierName? (ID_Start / ID_Continue ~ XID via Python's tables)
    G['id_start'] = [c for c in U.TABLE if ident_ok(c, True)]
    G['id_cont'] = [c for c in U.TABLE if ident_ok(c, False)]


def cin(c, cps):
    return z3.Or([c == z3.BitVecVal(x, CH) for x in cps]) if cps else z3.BoolVal(False)


def is_id_start(c):
    return z3.Or(z3.And(z3.UGE(c, 65), z3.ULE(c, 90)), z3.And(z3.UGE(c, 97), z3.ULE(c, 122)), c == 95, c == 36, cin(c, G['id_start']))


def is_id_cont(c):
    return z3.Or(is_id_start(c), z3.And(z3.UGE(c, 48), z3.ULE(c, 57)), cin(c, G['id_cont']))


def ceq(a, b):
    if is_sym(a) or is_sym(b):
        return bv(a, CH) == bv(b, CH)
    return z3.BoolVal(a == b)


def decodes(body, X):
    """z3 condition: `body` (the inside of a double-quoted literal) is well-formed and decodes to the char list X"""
    memo = {}

    def match(i, j):
        if i == len(body):
            return z3.BoolVal(j == len(X))
        key = (i, j)
        if key in memo:
            return memo[key]
        alts = []
        b = body[i]
        if j < len(X):
            plain = z3.And(z3.Not(ceq(b, 34)), z3.Not(ceq(b, 92)), z3.Not(ceq(b, 10)), z3.Not(ceq(b, 13)), ceq(b, X[j]), match(i + 1, j + 1))
            alts.append(plain)
            if i + 1 < len(body):
                e = body[i + 1]
                esc = z3.Or(z3.And(ceq(e, 34), ceq(X[j], 34)), z3.And(ceq(e, 92), ceq(X[j], 92)), z3.And(ceq(e, ord('n')), ceq(X[j], 10)),
                            z3.And(ceq(e, ord('r')), ceq(X[j], 13)))
                alts.append(z3.And(ceq(b, 92), esc, match(i + 2, j + 2 - 1)))
        memo[key] = z3.Or(alts) if alts else z3.BoolVal(False)
        return memo[key]
    return match(0, 0)


def valid_property_name(R, X):
    ident = z3.BoolVal(False)
    if len(R) == len(X) and len(X) > 0:
        ident = z3.And([ceq(r, x) for r, x in zip(R, X)] + [is_id_start(bv(X[0], CH))] + [is_id_cont(bv(c, CH)) for c in X[1:]])
    quoted = z3.BoolVal(False)
    if len(R) >= 2:
        quoted = z3.And(ceq(R[0], 34), ceq(R[-1], 34), decodes(R[1:-1], X))
    return z3.Or(ident, quoted)


def f11_class(X):
    """known finding F11: a char Rust calls alphanumeric but ECMAScript does not allow in an IdentifierName"""
    bad_cont = [c for c, p in U.TABLE.items() if p['alnum'] and c not in G['id_cont']]
    bad_start = [c for c, p in U.TABLE.items() if p['alnum'] and not p['numeric'] and c not in G['id_start']]
    alts = [cin(bv(c, CH), bad_cont) for c in X]
    if X:
        alts.append(cin(bv(X[0], CH), bad_start))
    return z3.Or(alts) if alts else z3.BoolVal(False)


def explore_rawname(item):
    n, nonascii = item
    X = [z3.BitVec(f'c{i}', CH) for i in range(n)]
    ex = Explorer(time_budget=G.get('time_budget'))
    for c in X:
        alts = [c == z3.BitVecVal(ord(x), CH) for x in ALPHA]
        if nonascii:
            alts += [c == z3.BitVecVal(s, CH) for s in U.TABLE]
        ex.solver.add(z3.Or(alts))
    out = {'violations': [], 'known_hits': {}, 'samples': [], 'obligations': 0, 'discharged': 0, 'models': set(), 'inconclusive': []}

    def harness(ctx):
        m = c16.machine(ctx)
        try:
            r = m.exec_fn(G['fns'][G['raw_name']], [RStr(X)])
        except Panic as e:
            return ('panic', str(e))
        out['models'].update(m.calls)
        return ('ok', r.cs)
    try:
        for pc, (k, R) in ex.run(harness):
            out['obligations'] += 1
            bad = z3.BoolVal(True) if k == 'panic' else z3.Not(valid_property_name(R, X))
            cls = f11_class(X)
            if ex.check(pc + [bad, z3.Not(cls)]) == z3.sat:
                mdl = ex.model()
                out['violations'].append({'kind': 'rawname', 'name': show(X, mdl), 'engine_result': None if k == 'panic' else show(R, mdl)})
                continue
            if ex.check(pc + [bad, cls]) == z3.sat:
                mdl = ex.model()
                out['known_hits'].setdefault('F11-non-identifier-alphanumeric', {'kind': 'rawname', 'name': show(X, mdl),
                                                                                 'engine_result': show(R, mdl)})
                continue
            out['discharged'] += 1
            if not out['samples'] and pc and ex.check(pc) == z3.sat:
                mdl = ex.model()
                out['samples'].append({'name': show(X, mdl), 'property_name': show(R, mdl)})
    except Unsupported as e:
        out['inconclusive'].append(f'rawname {item}: {e}')
    out.update(paths=ex.paths, nontrivial=ex.nontrivial, queries=ex.queries, solver_s=ex.solver_s)
    out['models'] = sorted(out['models'])
    return out


def name_ok_concrete(R, X):
    """the same oracle on a concrete native result"""
    c = valid_property_name([ord(x) for x in R], [ord(x) for x in X])
    return z3.is_true(z3.simplify(c))


def in_f11_concrete(X):
    return z3.is_true(z3.simplify(f11_class([ord(x) for x in X])))


def to_ts_ident_part(rep):
    ex = Explorer()
    raw = z3.Bool('is_raw')
    body = [z3.BitVec(f'i{k}', CH) for k in range(2)]
    for c in body:
        ex.solver.add(z3.Or([c == ord(x) for x in 'ar#_']))
    ex.solver.add(body[0] != ord('#'))

    def h(ctx):
        m = c16.machine(ctx)
        is_raw = ctx.decide(raw)
        ident = (o('r#') if is_raw else []) + body
        m.stubs.append((re.compile(r'^<proc_macro2::Ident as ToString>::to_string$'), lambda mm, c, a: RStr(list(ident))))
        try:
            r = m.exec_fn(G['fns'][G['to_ts_ident']], [ValRef(('ident-atom',))])
        except Panic as e:
            return 'panic', None
        return r.cs, body
    ob = di = 0
    for pc, (r, want) in ex.run(h):
        ob += 1
        # identifiers never contain `#` except in the raw prefix, and never start with "r#" after it
        legal = z3.And([c != ord('#') for c in body])
        bad = z3.BoolVal(True) if r == 'panic' else neq_strings(r, want)
        if ex.check(pc + [legal, bad]) == z3.sat:
            rep.violations.append({'what': 'to_ts_ident does not strip exactly the r# prefix', 'witness': {'ident': show(body, ex.model())},
                                   'key': 'to_ts_ident'})
        else:
            di += 1
    rep.absorb(dict(paths=ex.paths, nontrivial=ex.nontrivial, queries=ex.queries, solver_s=ex.solver_s, obligations=ob, discharged=di))
    rep.part('to_ts_ident', paths=ex.paths)


def o(t):
    return [ord(c) for c in t]


def layout_part(rep):
    """export_to_string layout with DOCS and decl() as holes, with and without docs / imports"""
    c03.setup()
    ob = di = 0
    for cfg in ('plain', 'esm'):
        for with_docs in (False, True):
            for deps in ([], [1], [1, 2]):
                ex = Explorer()

                def h(ctx):
                    m = c03.machine(ctx, cfg)
                    types = [UType(o('T'), [interp.Hole('decl')], o('T.ts'), deps, [interp.Hole('docs')] if with_docs else None),
                             UType(o('A'), o('type A = 0;'), o('x/A.ts')), UType(o('B'), o('type B = 0;'), o('B.ts'))]
                    Universe(types).install(m)
                    try:
                        r = m.call('export_to_string::<U0>', [])
                    except Panic as e:
                        return 'panic: ' + str(e)
                    if r.disc != 0:
                        return 'error'
                    return r.fields[0].cs
                for pc, r in ex.run(h):
                    ob += 1
                    note = c03.G['note']
                    ok = not isinstance(r, str) and r[:len(note)] == o(note)
                    if ok:
                        tail = ([interp.Hole('docs')] if with_docs else []) + o('export ') + [interp.Hole('decl')] + o('\n')
                        ok = r[-len(tail):] == tail and r[-len(tail) - 1] == 10
                        mid = r[len(note):-len(tail) - 1]
                        ok = ok and not any(isinstance(c, interp.Hole) for c in mid)
                        text = ''.join(chr(c) for c in mid)
                        lines = text.split('\n')
                        ok = ok and lines[-1] == '' and all(re.match(r'^import type \{ \w+(, \w+)* \} from "[^"]+";$', l) for l in lines[:-1]) \
                            and len(lines) - 1 == len(deps)
                    if ok:
                        di += 1
                    else:
                        rep.violations.append({'what': f'file layout broken [{cfg}, docs={with_docs}, deps={deps}]',
                                               'witness': {'text': r if isinstance(r, str) else ''.join(chr(c) if isinstance(c, int) else repr(c) for c in r)},
                                               'key': f'layout/{cfg}/{with_docs}/{len(deps)}'})
                rep.absorb(dict(paths=ex.paths, nontrivial=ex.nontrivial, queries=ex.queries, solver_s=ex.solver_s))
    rep.absorb(dict(obligations=ob, discharged=di))
    rep.part('layout', obligations=ob)
    rep.functions += describe(c03.G['fns']['plain'], ['export_to_string', 'generate_decl', 'generate_imports'])


def keys_part(rep):
    """Tier B: the inline() text of every corpus item -- names in every position the derive writes them: struct fields, fields with a
    `type` override, renamed / rename_all'd / raw-identifier fields, struct-variant fields, variant names as keys and as literals, tag
    and content keys -- must PARSE as a TypeScript type with the strict key rule of props/tsparse.py (identifier, numeric literal or
    closed string literal in key position; identifier in type-name position)."""
    from . import tyres, c07
    from . import tsparse as TP
    tyres.setup()
    TG = tyres.G
    ob = di = 0
    cand = []
    for name, item in TG['corpus'].items():
        if name in ('R1', 'R2', 'R3', 'R4', 'E1', 'E2', 'E3', 'E4', 'E5'):          # symbolic renames: literals_part / type_name_part / C11
            continue
        ty = c07.type_text(name, item)
        ex = Explorer()

        def h(ctx):
            r = tyres.Resolver(item['generics'])
            m = tyres.machine(ctx, r)
            try:
                return ('ok', list(m.call(f'<{ty} as TS>::inline', []).cs), list(m.call(f'<{ty} as TS>::decl', []).cs))
            except Panic as e:
                return ('panic', str(e), None)
        try:
            res = ex.run(h)
        except Unsupported as e:
            rep.inconclusive.append(f'keys {name}: {e}')
            continue
        rep.absorb(dict(paths=ex.paths, nontrivial=ex.nontrivial, queries=ex.queries, solver_s=ex.solver_s))
        for pc, (k, rope, decl) in res:
            if k == 'panic':
                continue            # types that cannot be inlined (by design) are not this part's subject
            ob += 1
            try:
                TP.parse(rope)
                hdr = re.match(r'^type ([^ =<]+)', tyres.show_rope(decl))
                if not hdr or not re.fullmatch(r'[A-Za-z_$][\w$]*', hdr.group(1)):
                    raise TP.ParseError(f'declared type name is not an identifier: {tyres.show_rope(decl)[:40]!r}')
                di += 1
            except TP.ParseError as e:
                cand.append((name, str(e), tyres.show_rope(rope)))
    if cand:
        nat = {k_: v for k_, v in c07.native_probe(rep).items() if v[0] == 'ok'}
        for name, why, text in cand:
            confirmed = None
            if (name, 'inline') in nat:
                try:
                    TP.parse([ord(c) for c in nat[name, 'inline'][1]])
                    confirmed = False
                except TP.ParseError:
                    confirmed = True
            if confirmed is False:
                rep.inconclusive.append(f'engine finding does not reproduce natively: keys {name}: {why}')
            else:
                rep.violations.append({'what': f'{TG["corpus"][name]["src"]}: inline() is not well-formed TypeScript: {why} [{text}]',
                                       'witness': {'item': name, 'text': text, 'native': nat.get((name, 'inline'))}, 'key': f'keys/{name}'})
    rep.absorb(dict(obligations=ob, discharged=di))
    rep.part('names in every derive position parse as TypeScript (tier B corpus)', obligations=ob)


def type_name_part(rep, quick):
    """Tier B: the *type identifier* position.  Corpus item R1 carries `#[ts(rename = <symbolic string>)]` on the container: the name
    after `type` in decl(), ident() and the head of name() must be an IdentifierName, and the rename string itself whenever that is
    one.  The derive writes the string verbatim -> known finding F18 for strings that are not identifiers."""
    from . import tyres
    tyres.setup()
    ob = di = 0
    for n in ((1, 2) if quick else (1, 2, 3)):
        ex = Explorer()
        A = [z3.BitVec(f'a{i}', CH) for i in range(n)]
        for c in A:
            ex.solver.add(z3.Or([c == ord(x) for x in 'aA_$0- ".<']))

        def h(ctx):
            r = tyres.Resolver(['T'], sym={'sym_a': A, 'sym_b': o('Bee')})
            m = tyres.machine(ctx, r)
            try:
                return ('ok', list(m.call('<R1<T> as TS>::decl', []).cs), list(m.call('<R1<T> as TS>::ident', []).cs), list(m.call('<R1<T> as TS>::name', []).cs))
            except Panic as e:
                return ('panic', str(e), None, None)
        try:
            res = ex.run(h)
        except Unsupported as e:
            rep.inconclusive.append(f'type name {n}: {e}')
            continue
        rep.absorb(dict(paths=ex.paths, nontrivial=ex.nontrivial, queries=ex.queries, solver_s=ex.solver_s))
        is_ident = z3.And([is_id_start(A[0])] + [is_id_cont(c) for c in A[1:]])
        for pc, (k, decl, ident, name) in res:
            ob += 1
            if k == 'panic':
                rep.violations.append({'what': f'R1::decl panics: {decl}', 'witness': {}, 'key': 'typename/panic'})
                continue
            head = decl[5:5 + n] if decl[:5] == o('type ') else None
            verbatim = head is not None and all(is_sym(x) and x.eq(a) for x, a in zip(head, A)) and ident == A and name[:n] == A
            if not verbatim:
                # the derive no longer writes the string verbatim: the emitted name must then be an identifier on its own
                text = tyres.show_rope([c for c in decl if not is_sym(c)])
                rep.inconclusive.append(f'type name: decl() head is not the rename string verbatim ({text[:40]!r}); extend props/c04.py type_name_part')
                continue
            if ex.check(pc + [z3.Not(is_ident)]) == z3.sat:
                mdl = ex.model()
                rep.known_hits.setdefault('F18-container-rename-not-identifier', {'kind': 'typename', 'item': tyres.G['corpus']['R1']['src'], 'name': show(A, mdl),
                                                                                 'engine_result': show(decl, mdl).replace('{', '{')[:60] if False else show([c for c in decl if not isinstance(c, interp.Hole)], mdl)[:60]})
            di += 1
    rep.absorb(dict(obligations=ob, discharged=di))
    rep.part('type identifier position (tier B corpus R1, symbolic container rename)', obligations=ob)


def native_type_name(name):
    """decl() of `#[ts(rename = <name>)] struct S { x: i32 }` through the real derive, natively"""
    import tempfile, shutil
    scratch = tempfile.mkdtemp(prefix='tsrs-verif-c04t-')
    try:
        os.makedirs(os.path.join(scratch, 'src'))
        shutil.copy(os.path.join(REPO, 'Cargo.lock'), os.path.join(scratch, 'Cargo.lock'))
        with open(os.path.join(scratch, 'Cargo.toml'), 'w') as fh:
            fh.write(f'[package]\nname = "c04probe"\nversion = "0.0.0"\nedition = "2021"\n[workspace]\n[dependencies]\n'
                     f'ts-rs = {{ path = "{os.path.join(REPO, "ts-rs")}" }}\n')
        lit = '"' + name.replace('\\', '\\\\').replace('"', '\\"').replace('\n', '\\n') + '"'
        with open(os.path.join(scratch, 'src', 'main.rs'), 'w') as fh:
            fh.write('use ts_rs::TS;\n#[derive(TS)] #[ts(rename = %s)] struct S { x: i32 }\nfn main() { println!("{}", S::decl()); }\n' % lit)
        p = build.run(['cargo', 'run', '--offline', '-q', '--target-dir', os.path.join(build.CACHE, 'target-c04probe')], cwd=scratch)
        if p.returncode != 0:
            return None
        return p.stdout.rstrip('\n')
    finally:
        shutil.rmtree(scratch, ignore_errors=True)


def literals_part(rep, quick):
    """Tier B: string literals the derive builds from names (variant names under every tagging, with the name a symbolic string):
    each must be a closed literal that decodes to the name. The derive interpolates them unescaped -> known finding F15."""
    from . import tyres
    from mirsym.interp import Hole
    tyres.setup()
    TG = tyres.G
    ob = di = 0
    for item, n in [(it, k) for it in ('R4', 'R2', 'R3') for k in ((1, 2) if quick else (1, 2, 3))]:
        ex = Explorer()
        A = [z3.BitVec(f'a{i}', CH) for i in range(n)]
        B = o('Bee')
        for c in A:
            ex.solver.add(z3.Or([c == ord(x) for x in 'aA "\\\n-']))

        def h(ctx):
            r = tyres.Resolver(['T'], sym={'sym_a': A, 'sym_b': B})
            m = tyres.machine(ctx, r)
            try:
                return ('ok', list(m.call(f'<{item}<T> as TS>::inline', []).cs))
            except Panic as e:
                return ('panic', str(e))
        try:
            res = ex.run(h)
        except Unsupported as e:
            rep.inconclusive.append(f'literals {item}: {e}')
            continue
        rep.absorb(dict(paths=ex.paths, nontrivial=ex.nontrivial, queries=ex.queries, solver_s=ex.solver_s))
        for pc, (k, rope) in res:
            ob += 1
            if k == 'panic':
                rep.violations.append({'what': f'{item}::inline panics: {rope}', 'witness': {}, 'key': f'lit/{item}/panic'})
                continue
            # the symbolic name sits between two double quotes: locate it by identity of the solver variables
            idx = [i for i, c in enumerate(rope) if is_sym(c) and any(c.eq(a) for a in A)]
            if len(idx) != n or idx != list(range(idx[0], idx[0] + n)) or rope[idx[0] - 1] != 34 or rope[idx[-1] + 1] != 34:
                rep.inconclusive.append(f'literals {item}: could not locate the name literal in {tyres.show_rope(rope)!r}')
                continue
            body = rope[idx[0]:idx[-1] + 1]
            bad = z3.Not(decodes(body, A))
            if ex.check(pc + [bad]) == z3.sat:
                mdl = ex.model()
                rep.known_hits.setdefault('F15-derive-literals-unescaped', {'kind': 'variant', 'item': TG['corpus'][item]['src'], 'name': show(A, mdl),
                                                                           'engine_result': show([c for c in rope if not isinstance(c, Hole)], mdl)})
            else:
                di += 1
    rep.absorb(dict(obligations=ob, discharged=di))
    rep.part('derive-built string literals (tier B corpus R2/R3/R4)', obligations=ob)


def native_variant_literal(name):
    """inline() of `enum E { #[ts(rename = <name>)] A, B }` through the real derive, natively"""
    import tempfile, shutil
    scratch = tempfile.mkdtemp(prefix='tsrs-verif-c04-')
    try:
        os.makedirs(os.path.join(scratch, 'src'))
        shutil.copy(os.path.join(REPO, 'Cargo.lock'), os.path.join(scratch, 'Cargo.lock'))
        with open(os.path.join(scratch, 'Cargo.toml'), 'w') as fh:
            fh.write(f'[package]\nname = "c04probe"\nversion = "0.0.0"\nedition = "2021"\n[workspace]\n[dependencies]\n'
                     f'ts-rs = {{ path = "{os.path.join(REPO, "ts-rs")}" }}\n')
        lit = '"' + name.replace('\\', '\\\\').replace('"', '\\"').replace('\n', '\\n') + '"'
        with open(os.path.join(scratch, 'src', 'main.rs'), 'w') as fh:
            fh.write('use ts_rs::TS;\n#[derive(TS)] enum E { #[ts(rename = %s)] A, B }\nfn main() { println!("{}", E::inline().replace(\'\\n\', "\\\\n")); }\n' % lit)
        p = build.run(['cargo', 'run', '--offline', '-q', '--target-dir', os.path.join(build.CACHE, 'target-c04probe')], cwd=scratch)
        if p.returncode != 0:
            return None
        return p.stdout.rstrip('\n').replace('\\n', '\n')
    finally:
        shutil.rmtree(scratch, ignore_errors=True)


def validate(rep, count):
    rnd = random.Random(SEED)
    cases = ['', 'a', 'a-b', 'x"y', 'a\\b', 'a\nb', '0a', '$x', '_', 'a b', 'é', '中', 'x²', '"', '\\', 'a/b', 'type', 'A1_$']
    alpha = ALPHA + ''.join(chr(c) for c in U.TABLE)
    for _ in range(count):
        cases.append(''.join(rnd.choice(alpha) for _ in range(rnd.randint(0, 6))))
    nat = G['native'].batch([['rawname', c] for c in cases])
    bad = 0
    for c, n in zip(cases, nat):
        ex = Explorer()

        def h(ctx):
            m = c16.machine(ctx)
            return show(m.exec_fn(G['fns'][G['raw_name']], [S(c)]))
        try:
            mine = ex.run(h)[0][1]
        except Unsupported as e:
            rep.inconclusive.append(f'validation: engine cannot run raw_name_to_ts_field({c!r}): {e}')
            return
        if n[0] != 'ok' or n[1] != mine:
            bad += 1
            if bad <= 3:
                rep.inconclusive.append(f'translator validation mismatch raw_name_to_ts_field({c!r}): engine={mine!r} native={n}')
    rep.validated('raw_name_to_ts_field vs native (through #[ts(rename = ..)] in the derive pipeline)', len(cases), bad)


def main():
    rep = report.Report('C04', 'bounded symbolic execution of rustc MIR: raw_name_to_ts_field on symbolic names (z3 decides "identifier or a '
                               'closed literal decoding to the name"), to_ts_ident, and the export_to_string layout as a rope equation '
                               'with DOCS/decl() uninterpreted')
    setup()
    quick = TIER == 'quick'
    G['time_budget'] = 1500 if quick else 7000
    rep.functions = describe(G['fns'], [G['raw_name'], G['to_ts_ident']] + fn_names(G['fns'], '', 'raw_name_to_ts_field::{closure'))
    rep.configs = ['ts-rs-macros: serde-compat', 'ts-rs: default features', 'ts-rs: import-esm']
    validate(rep, 60 if quick else 600)
    for part in (to_ts_ident_part, layout_part):
        try:
            part(rep)
        except Unsupported as e:
            rep.inconclusive.append(f'{part.__name__}: {e}')
    try:
        literals_part(rep, quick)
        keys_part(rep)
        type_name_part(rep, quick)
    except Unsupported as e:
        rep.inconclusive.append(f'literals_part: {e}')
    NA, NU = (4, 3) if quick else (6, 4)
    items = [(n, False) for n in range(0, NA + 1)] + [(n, True) for n in range(1, NU + 1)]
    results = par.pmap(explore_rawname, items)
    cand = []
    for r in results:
        cand += r.pop('violations', [])
        for fid, w in r.pop('known_hits', {}).items():
            rep.known_hits.setdefault(fid, w)
        rep.absorb(r)
    rep.bounds = {'names_ascii': f'length 0..{NA} over {ALPHA!r}', 'names_with_non_ascii': f'length 1..{NU} over the same + sample {[hex(c) for c in U.TABLE]}',
                  'layout': 'T with/without DOCS, 0..2 imported dependencies, import-esm off/on; DOCS and decl() uninterpreted'}
    rep.outside += ['a full TypeScript grammar (reduced to lexical conditions)', 'the `format` feature (dprint)',
                    'tag / content string literals (same code path as variant names, which are covered) and the `type Name = ..;` text',
                    'names longer than the bound']
    rep.assumptions += ['ECMAScript ID_Start / ID_Continue are approximated by XID_Start / XID_Continue (Python unicodedata) on the sample']
    seen = {}
    for c in cand:
        seen.setdefault(c['engine_result'] is None, c)
    for c in seen.values():
        nat = G['native'].one('rawname', c['name'])
        c['native'] = nat
        if nat[0] == 'panic' or (nat[0] == 'ok' and not name_ok_concrete(nat[1], c['name']) and not in_f11_concrete(c['name'])):
            rep.violations.append({'what': f'property name for {c["name"]!r} is {nat[1]!r}: neither an identifier nor a closed literal decoding to it',
                                   'witness': c, 'key': 'rawname'})
        else:
            rep.inconclusive.append(f'engine counterexample does not reproduce natively: {c}')
    for fid, w in list(rep.known_hits.items()):
        if w.get('kind') == 'variant':
            nat = native_variant_literal(w['name'])
            w['native'] = nat
            want = '"' + w['name'] + '" | "B"'
            # reproduced when the literal as emitted does not decode to the name: here, when it is emitted verbatim although it
            # contains a character that needs escaping
            if not (nat is not None and nat == want and any(ch in w['name'] for ch in '"\\\n')):
                del rep.known_hits[fid]
                rep.inconclusive.append(f'witness of known finding {fid} does not reproduce natively: {w}')
            continue
        if w.get('kind') == 'typename':
            nat = native_type_name(w['name'])
            w['native'] = nat
            if not (nat is not None and nat.startswith('type ' + w['name'] + ' = ') and not re.fullmatch(r'[A-Za-z_$][\w$]*', w['name'])):
                del rep.known_hits[fid]
                rep.inconclusive.append(f'witness of known finding {fid} does not reproduce natively: {w}')
            continue
        nat = G['native'].one('rawname', w['name'])
        w['native'] = nat
        if not (nat[0] == 'ok' and not name_ok_concrete(nat[1], w['name'])):
            del rep.known_hits[fid]
            rep.inconclusive.append(f'witness of known finding {fid} does not reproduce natively: {w}')
    return rep.finish()


def replay(path):
    import json
    setup()
    w = json.load(open(path))['witness']
    nat = G['native'].one('rawname', w['name'])
    print(nat)
    return 1 if nat[0] != 'ok' or not name_ok_concrete(nat[1], w['name']) else 0


if __name__ == '__main__':
    if len(sys.argv) > 2 and sys.argv[1] == '--replay':
        sys.exit(replay(sys.argv[2]))
    run_main(main)
