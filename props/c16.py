"""C16 -- the derive is total: no panics; conflicts are diagnosed.

Executed symbolically (real MIR): the Inflection methods (no panic path for any identifier), raw_name_to_ts_field,
lowercase_first_char, Optional::or, EnumAttr::tagged, the four assert_validity, unit::check_attributes -- on attribute
records whose every Option/bool is a solver variable and on lazily created syn items.
"that accepted expansions compile" needs rustc in the loop and is outside this check.
"""
from .common import *
from . import c09
from mirsym.models import Opaque

G = {}


def setup():
    c09.setup()
    G.update(c09.G)
    fns = G['fns']
    enums, structs = srcinfo.scan([os.path.join(REPO, 'macros', 'src')])
    G['ftypes'] = srcinfo.FIELD_TYPES
    enums['Fields'] = ['Named', 'Unnamed', 'Unit']
    G['enums'].update(enums)
    G['structs'] = structs
    G['av'] = {k: one_fn(fns, '>::assert_validity', v) for k, v in
               (('FieldAttr', 'attr/field.rs'), ('StructAttr', 'attr/struct.rs'), ('EnumAttr', 'attr/enum.rs'),
                ('VariantAttr', 'attr/variant.rs'))}
    G['tagged'] = one_fn(fns, '>::tagged', 'enum')
    G['check_attributes'] = one_fn(fns, 'check_attributes')
    G['optional_or'] = one_fn(fns, '>::or', 'attr/mod.rs')
    G['raw_name'] = one_fn(fns, 'raw_name_to_ts_field')


# ------------------------------------------------------------------------------------------ symbolic attribute records
def sym_record(sname, tag):
    """Struct with one solver variable per Option / bool / Optional field; returns (value, {field: z3 Bool 'is set'})"""
    vals, V = [], {}
    for f in G['structs'][sname]:
        ty = G['ftypes'][sname][f]
        n = f'{tag}.{f}'
        if ty.startswith('Option<'):
            b = z3.Bool(n + '.some')
            inner = RStr([interp.Hole(n)]) if ty == 'Option<String>' else (
                Enum(z3.BitVec(n + '.rule', 64), [], 'Inflection?') if ty == 'Option<Inflection>' else Opaque(n))
            vals.append(Enum(z3.If(b, z3.BitVecVal(1, 64), z3.BitVecVal(0, 64)), [inner], 'Option?'))
            V[f] = b
        elif ty == 'bool':
            b = z3.Bool(n)
            vals.append(b)
            V[f] = b
        elif ty == 'Optional':
            b = z3.Bool(n + '.is_optional')
            vals.append(Enum(z3.If(b, z3.BitVecVal(0, 64), z3.BitVecVal(1, 64)), [z3.Bool(n + '.nullable')], 'Optional?'))
            V[f] = b
        elif ty == 'String':
            vals.append(RStr([interp.Hole(n)]))
        else:
            vals.append(Opaque(n))
    return Struct(vals, sname), V


def machine(ctx):
    m = Machine(G['fns'], MODELS, ctx, G['enums'])
    m.struct_fields = G['structs']
    m.stubs = [(re.compile(r'crate_rename$'), lambda mm, c, a: Opaque('crate_rename'))]
    return m


def run_validity(kind):
    """explore assert_validity of `kind`; returns (explorer, results [(pc, ('ok'|'err'|'panic', msg))], V, item facts)"""
    ex = Explorer(time_budget=G.get('time_budget'))
    attr, V = sym_record(kind, 'attr')
    facts = {}
    if kind == 'FieldAttr':
        item = Lazy('field')
        # syn::Field { attrs, vis, mutability, ident, colon_token, ty }
    elif kind == 'StructAttr':
        kd = z3.BitVec('fields.kind', 64)
        ex.solver.add(z3.ULT(kd, 3))
        item = Enum(kd, [Lazy('fields.payload')], 'Fields?')
        facts['named'] = kd == 0
    elif kind == 'EnumAttr':
        item = Lazy('item_enum')
    else:
        item = Lazy('variant')

    def harness(ctx):
        m = machine(ctx)
        it = item
        if kind in ('FieldAttr', 'VariantAttr', 'EnumAttr'):
            it = Lazy(item.label)          # fresh per path (lazy parts are created during execution)
        try:
            r = m.exec_fn(G['fns'][G['av'][kind]], [ValRef(attr), ValRef(it)])
        except Panic as e:
            return ('panic', str(e)), it
        if disc_conc(r) == 0:
            return ('ok', ''), it
        e = r.fields[0]
        return ('err', e[1] if isinstance(e, tuple) and len(e) > 1 else str(e)), it
    res = ex.run(harness)
    return ex, res, V, facts


def disc_conc(r):
    d = r.disc
    if is_sym(d):
        d = z3.simplify(d)
        if z3.is_bv_value(d):
            return d.as_long()
        raise Unsupported('symbolic result discriminant')
    return d


def tables(kind, V, facts, res):
    """frozen incompatibility table (from the diagnostics present at the pinned commit): [(label, z3 condition)]"""
    A = z3.And
    N = z3.Not
    if kind == 'FieldAttr':
        # the only part of syn::Field the code looks at is `ident: Option<Ident>`
        unnamed = None
        for pc, (_, it) in res:
            for idx, part in it.parts.items():
                if isinstance(part, Enum) and is_sym(part.disc):
                    unnamed = z3.Bool(f'field.{idx}.is_some') == False   # noqa: E712
        if unnamed is None:
            raise Unsupported('assert_validity(FieldAttr) never looked at field.ident')
        t = [('type x as', A(V['type_override'], V['type_as'])), ('type x inline', A(V['type_override'], V['inline'])),
             ('type x flatten', A(V['type_override'], V['flatten'])), ('type x optional', A(V['type_override'], V['optional'])),
             ('flatten x as', A(V['flatten'], V['type_as'])), ('flatten x rename', A(V['flatten'], V['rename'])),
             ('flatten x inline', A(V['flatten'], V['inline'])), ('flatten x optional', A(V['flatten'], V['optional'])),
             ('tuple field x flatten', A(unnamed, V['flatten'])), ('tuple field x rename', A(unnamed, V['rename'])),
             ('tuple field x optional', A(unnamed, V['optional']))]
        if 'serde-compat' in G.get('features', ('serde-compat',)):
            t.append(('serde with x neither as nor type', A(V['using_serde_with'], N(V['type_as']), N(V['type_override']))))
        return t
    if kind == 'StructAttr':
        nn = N(facts['named'])
        return [('type x as', A(V['type_override'], V['type_as'])), ('type x rename_all', A(V['type_override'], V['rename_all'])),
                ('type x tag', A(V['type_override'], V['tag'])), ('type x optional_fields', A(V['type_override'], V['optional_fields'])),
                ('as x tag', A(V['type_as'], V['tag'])), ('as x rename_all', A(V['type_as'], V['rename_all'])),
                ('as x optional_fields', A(V['type_as'], V['optional_fields'])),
                ('unit/tuple struct x tag', A(nn, V['tag'])), ('unit/tuple struct x rename_all', A(nn, V['rename_all'])),
                ('unit/tuple struct x optional_fields', A(nn, V['optional_fields']))]
    if kind == 'EnumAttr':
        t = []
        for a in ('type_override', 'type_as'):
            for b in ('rename_all', 'rename_all_fields', 'tag', 'content', 'untagged'):
                t.append((f'{a} x {b}', A(V[a], V[b])))
        t += [('type x as', A(V['type_override'], V['type_as'])), ('untagged x tag', A(V['untagged'], V['tag'])),
              ('untagged x content', A(V['untagged'], V['content'])), ('content without tag', A(V['content'], N(V['tag'])))]
        return t
    if kind == 'VariantAttr':
        # syn::Variant { attrs, ident, fields, discriminant }: the code reads discriminant(variant.fields)
        named = None
        for pc, (_, it) in res:
            for idx, part in it.parts.items():
                if isinstance(part, Lazy) and part.disc is not None:
                    named = part.disc == 0
        if named is None:
            raise Unsupported('assert_validity(VariantAttr) never looked at variant.fields')
        return [('as x type', A(V['type_as'], V['type_override'])), ('as x rename_all', A(V['type_as'], V['rename_all'])),
                ('type x rename_all', A(V['type_override'], V['rename_all'])), ('type x inline', A(V['type_override'], V['inline'])),
                ('unit/tuple variant x rename_all', A(N(named), V['rename_all']))]
    raise Unsupported(kind)


def validity_part(rep, kind):
    ex, res, V, facts = run_validity(kind)
    table = tables(kind, V, facts, res)
    anyc = z3.Or([c for _, c in table])
    obligations = discharged = 0
    msgs = set()
    def named_of(mdl):
        if kind == 'StructAttr':
            return z3.is_true(mdl.eval(facts['named'], model_completion=True))
        if kind == 'FieldAttr':
            for d in mdl.decls():
                if str(d).startswith('field.') and str(d).endswith('.is_some'):
                    return z3.is_true(mdl[d])
            return True
        if kind == 'VariantAttr':
            for d in mdl.decls():
                if str(d).startswith('variant.') and str(d).endswith('.disc'):
                    return mdl[d].as_long() == 0
            return True
        return True

    def confirm(what, mdl, expect, key):
        verdict, msg, src = native_verdict(kind, mdl, V, named_of(mdl))
        w = dict(model_dict(mdl), item=src, native=[verdict, msg])
        if verdict in expect:
            rep.violations.append({'what': f'{what}; natively `{src}` -> {verdict} {msg}', 'witness': w, 'key': key})
        else:
            rep.inconclusive.append(f'{kind}: engine verdict not reproduced natively ({what}): `{src}` -> {verdict} {msg}')

    for pc, ((k, msg), it) in res:
        obligations += 1
        if k == 'panic':
            if ex.check(pc) == z3.sat:
                confirm(f'{kind}::assert_validity panics: {msg}', ex.model(), ('panic',), f'{kind}/panic')
            continue
        if k == 'ok':
            # no incompatible combination may be accepted
            if ex.check(pc + [anyc]) == z3.sat:
                # one witness per table row, minimal in the other rows and attributes (a later stage of the derive may reject a richer
                # combination for another reason, which would hide the acceptance from the native replay)
                done = False
                for lbl, c in table:
                    others = [z3.Not(c2) for l2, c2 in table if l2 != lbl]
                    if ex.check(pc + [c] + others) == z3.sat:
                        mdl = ex.model()
                        n_before = len(rep.violations)
                        confirm(f'{kind}: incompatible combination accepted: {[lbl]}', mdl, ('ok', 'panic'), f'{kind}/accepted/{lbl}')
                        done = done or len(rep.violations) > n_before
                if not done:
                    mdl = ex.model() if ex.check(pc + [anyc]) == z3.sat else None
                    if mdl is not None:
                        bad = [lbl for lbl, c in table if z3.is_true(mdl.eval(c, model_completion=True))]
                        confirm(f'{kind}: incompatible combination accepted: {bad}', mdl, ('ok', 'panic'), f'{kind}/accepted/{bad[0] if bad else ""}')
            else:
                discharged += 1
        else:
            msgs.add(msg)
            # every rejection is explained by the table
            if ex.check(pc + [z3.Not(anyc)]) == z3.sat:
                confirm(f'{kind}: combination rejected although no documented conflict: {msg!r}', ex.model(), ('err', 'panic'),
                        f'{kind}/rejected/{msg}')
            else:
                discharged += 1
    # vacuity guard: every table entry is reachable (rejected on some path)
    for lbl, c in table:
        if not any(k == 'err' and ex.check(pc + [c]) == z3.sat for pc, ((k, _), _) in res):
            rep.inconclusive.append(f'{kind}: table entry {lbl!r} is never rejected on any path (harness vacuity?)')
    rep.absorb(dict(paths=ex.paths, nontrivial=ex.nontrivial, queries=ex.queries, solver_s=ex.solver_s,
                    obligations=obligations, discharged=discharged))
    rep.part(f'assert_validity({kind})', paths=ex.paths, table_entries=len(table), distinct_diagnostics=len(msgs))
    if len(rep.samples) < 12:
        rep.samples.append({'kind': kind, 'table': [l for l, _ in table], 'diagnostics': sorted(msgs)[:6]})
    return ex, res, V


ATTR_TEXT = {'type_as': 'as = "String"', 'type_override': 'type = "x"', 'rename': 'rename = "r"', 'inline': 'inline', 'skip': 'skip',
             'optional': 'optional', 'flatten': 'flatten', 'rename_all': 'rename_all = "camelCase"', 'tag': 'tag = "t"',
             'optional_fields': 'optional_fields', 'rename_all_fields': 'rename_all_fields = "camelCase"', 'content': 'content = "c"',
             'untagged': 'untagged', 'export': 'export', 'export_to': 'export_to = "x/"', 'crate_rename': 'crate = "ts_rs"',
             'bound': 'bound = ""', 'using_serde_with': None}


def native_verdict(kind, mdl, V, shape_named):
    """re-run the combination through the natively compiled derive pipeline: 'ok' | 'err' | 'panic' (+ message, item source)"""
    on = [f for f in V if z3.is_true(mdl.eval(V[f], model_completion=True))]
    ts = ', '.join(ATTR_TEXT[f] for f in on if ATTR_TEXT.get(f))
    attrs = (f'#[ts({ts})] ' if ts else '') + ('#[serde(with = "m")] ' if 'using_serde_with' in on else '')
    if kind == 'FieldAttr':
        src = f'struct S {{ {attrs}f: Option<i32> }}' if shape_named else f'struct S({attrs}Option<i32>, i32);'
    elif kind == 'StructAttr':
        # the shape the model chose: named / tuple with fields / tuple without fields / unit
        kd = mdl.eval(z3.BitVec('fields.kind', 64), model_completion=True).as_long()
        empty = any(str(d).endswith('.is_empty') and z3.is_true(mdl[d]) for d in mdl.decls())
        src = f'{attrs}struct S {{ a: Option<i32> }}' if shape_named else (f'{attrs}struct S;' if kd == 2 else (f'{attrs}struct S();' if empty else f'{attrs}struct S(i32, i32);'))
    elif kind == 'EnumAttr':
        src = f'{attrs}enum E {{ A }}'
    else:
        src = f'enum E {{ {attrs}A {{ x: i32 }} }}' if shape_named else f'enum E {{ {attrs}A(i32) }}'
    r = G['native'].one('expand', src)
    return r[0], (r[1] if len(r) > 1 else '')[:200], src


def model_dict(mdl):
    return {str(d): str(mdl[d]) for d in mdl.decls()}


def tagged_part(rep):
    """EnumAttr::tagged() is Ok whenever assert_validity was Ok (so the expect() in from_variant cannot fire)"""
    ex = Explorer()
    attr, V = sym_record('EnumAttr', 'attr')

    def harness(ctx):
        m = machine(ctx)
        try:
            a = m.exec_fn(G['fns'][G['av']['EnumAttr']], [ValRef(attr), ValRef(Lazy('item_enum'))])
            t = m.exec_fn(G['fns'][G['tagged']], [ValRef(attr)])
        except Panic as e:
            return ('panic', str(e))
        return (disc_conc(a), disc_conc(t))
    res = ex.run(harness)
    ob = di = 0
    for pc, r in res:
        ob += 1
        if r[0] == 'panic' or (r[0] == 0 and r[1] != 0):
            if ex.check(pc) == z3.sat:
                rep.violations.append({'what': f'EnumAttr valid but tagged() fails (from_variant would panic): {r}',
                                       'witness': model_dict(ex.model()), 'key': 'tagged'})
                continue
        di += 1
    rep.absorb(dict(paths=ex.paths, nontrivial=ex.nontrivial, queries=ex.queries, solver_s=ex.solver_s, obligations=ob, discharged=di))
    rep.part('tagged', paths=ex.paths)


def small_kernels(rep):
    fns = G['fns']
    # Optional::or -- total, and optional iff one side is
    ex = Explorer()
    mk = lambda t: Enum(z3.If(z3.Bool(t + '.opt'), z3.BitVecVal(0, 64), z3.BitVecVal(1, 64)), [z3.Bool(t + '.nullable')], 'Optional?')

    def h(ctx):
        m = machine(ctx)
        try:
            r = m.exec_fn(fns[G['optional_or']], [mk('a'), mk('b')])
        except Panic as e:
            return ('panic', str(e))
        return ('ok', r)
    ob = di = 0
    for pc, (k, r) in ex.run(h):
        ob += 1
        if k == 'panic':
            rep.violations.append({'what': 'Optional::or panics', 'witness': {}, 'key': 'or/panic'})
            continue
        want = z3.Or(z3.Bool('a.opt'), z3.Bool('b.opt'))
        got = (r.disc == 0) if is_sym(r.disc) else z3.BoolVal(r.disc == 0)
        if ex.check(pc + [got != want]) == z3.sat:
            rep.violations.append({'what': 'Optional::or loses or invents optionality', 'witness': model_dict(ex.model()), 'key': 'or'})
        else:
            di += 1
    rep.absorb(dict(paths=ex.paths, nontrivial=ex.nontrivial, queries=ex.queries, solver_s=ex.solver_s, obligations=ob, discharged=di))
    # check_attributes: rename_all / tag on a unit-like struct is rejected
    ex = Explorer()
    attr, V = sym_record('StructAttr', 'attr')

    def h2(ctx):
        m = machine(ctx)
        try:
            r = m.exec_fn(fns[G['check_attributes']], [ValRef(attr)])
        except Panic as e:
            return 'panic'
        return disc_conc(r)
    ob = di = 0
    for pc, r in ex.run(h2):
        ob += 1
        bad = z3.BoolVal(True) if r == 'panic' else ((z3.Or(V['rename_all'], V['tag'])) if r == 0 else z3.Not(z3.Or(V['rename_all'], V['tag'])))
        if ex.check(pc + [bad]) == z3.sat:
            rep.violations.append({'what': f'unit::check_attributes: wrong verdict {r}', 'witness': model_dict(ex.model()), 'key': 'check_attributes'})
        else:
            di += 1
    rep.absorb(dict(paths=ex.paths, nontrivial=ex.nontrivial, queries=ex.queries, solver_s=ex.solver_s, obligations=ob, discharged=di))
    rep.part('small kernels', fns=['Optional::or', 'unit::check_attributes'])


def explore_nopanic(item):
    """no panic path in the real Inflection methods / raw_name_to_ts_field for any string in the bound"""
    what, rule, n, nonascii = item
    chars = [z3.BitVec(f'c{i}', CH) for i in range(n)]
    ex = Explorer(time_budget=G.get('time_budget'))
    if what == 'rawname':
        for c in chars:
            ex.solver.add(z3.Or([c == z3.BitVecVal(ord(x), CH) for x in 'aA_$0- "\\\n'] + ([c == z3.BitVecVal(s, CH) for s in U.TABLE] if nonascii else [])))
    else:
        ex.solver.add(*c09.ident_domain(chars, nonascii))
    out = {'violations': [], 'samples': [], 'obligations': 0, 'discharged': 0, 'models': set(), 'inconclusive': []}

    def harness(ctx):
        m = machine(ctx)
        try:
            if what == 'rawname':
                r = m.exec_fn(G['fns'][G['raw_name']], [RStr(chars)])
            else:
                fn = G['ts_field'] if what == 'field' else G['ts_variant']
                r = m.exec_fn(G['fns'][fn], [Enum(G['enums']['Inflection'].index(c09.TS_VARIANT[rule]), [], rule), ValRef(RStr(chars))])
        except Panic as e:
            return ('panic', str(e))
        out['models'].update(m.calls)
        return ('ok', r)
    try:
        for pc, (k, r) in ex.run(harness):
            out['obligations'] += 1
            if k == 'panic' and ex.check(pc) == z3.sat:
                out['violations'].append({'what': what, 'rule': rule, 'input': show(chars, ex.model()), 'panic': r})
            else:
                out['discharged'] += 1
    except Unsupported as e:
        out['inconclusive'].append(f'{item}: {e}')
    out.update(paths=ex.paths, nontrivial=ex.nontrivial, queries=ex.queries, solver_s=ex.solver_s)
    out['models'] = sorted(out['models'])
    return out


REJECT_FIELD_ATTRS = [
    ('unknown key', '#[ts(bogus)]', 'i32', 'all'), ('malformed value', '#[ts(rename = 5)]', 'i32', 'named'),
    ('type x as', '#[ts(type = "a", as = "String")]', 'i32', 'all'), ('type x inline', '#[ts(type = "a", inline)]', 'i32', 'all'),
    ('flatten x rename', '#[ts(flatten, rename = "y")]', 'Inner', 'named'), ('flatten x inline', '#[ts(flatten, inline)]', 'Inner', 'named'),
    ('flatten x type', '#[ts(flatten, type = "a")]', 'Inner', 'named'), ('flatten x optional', '#[ts(flatten, optional)]', 'Option<Inner>', 'named'),
    ('optional on a tuple field', '#[ts(optional)]', 'Option<i32>', 'tuple'), ('flatten on a tuple field', '#[ts(flatten)]', 'Inner', 'tuple'),
    ('rename on a tuple field', '#[ts(rename = "r")]', 'i32', 'tuple'),
]
REJECT_POSITIONS = [
    ('struct field', 'named', 'struct S {{ {A} x: {F}, y: i32 }}', False), ('tuple struct field', 'tuple', 'struct S({A} {F}, i32);', False),
    ('newtype struct field', 'tuple', 'struct S({A} {F});', False),
    ('struct variant field', 'named', '{E} enum S {{ {V} A {{ {A} x: {F}, y: i32 }}, B }}', True),
    ('tuple variant field', 'tuple', '{E} enum S {{ {V} A({A} {F}, i32), B }}', True),
    ('newtype variant field', 'tuple', '{E} enum S {{ {V} A({A} {F}), B }}', True),
]
REJECT_ENUM = ['', '#[ts(tag = "t")]', '#[ts(tag = "t", content = "c")]', '#[ts(untagged)]']
REJECT_VARIANT = ['', '#[ts(as = "String")]', '#[ts(type = "string")]', '#[ts(rename = "Z")]', '#[ts(untagged)]']


REJECT_ITEMS = [
    ('unknown container key', '#[ts(bogus)] struct S { x: i32 }'), ('unknown container key', '#[ts(bogus)] struct S(i32, i32);'),
    ('unknown container key', '#[ts(bogus)] struct S;'), ('unknown container key', '#[ts(bogus = "x")] enum S { A }'),
    ('unknown variant key', 'enum S { #[ts(bogus)] A, B }'), ('unknown variant key', '#[ts(tag = "t")] enum S { #[ts(bogus = 1)] A { x: i32 } }'),
    ('malformed value', '#[ts(rename_all = "camelcase")] struct S { x: i32 }'), ('malformed value', '#[ts(rename_all = 5)] enum S { A }'),
    ('malformed value', '#[ts(tag = 5)] enum S { A }'),
    ('malformed value', 'enum S { #[ts(rename_all = "nope")] A { x: i32 } }'), ('malformed value', '#[ts(rename_all_fields = "nope")] enum S { A { x: i32 } }'),
    ('type x as (container)', '#[ts(type = "a", as = "String")] struct S { x: i32 }'), ('type x as (variant)', 'enum S { #[ts(type = "a", as = "String")] A(i32) }'),
    ('untagged x tag', '#[ts(untagged, tag = "t")] enum S { A, B(i32) }'), ('untagged x tag', '#[ts(untagged, tag = "t")] enum S { A { x: i32 } }'),
    ('content without tag', '#[ts(content = "c")] enum S { A(i32) }'), ('content without tag', '#[ts(content = "c")] enum S { A { x: i32 } }'),
    ('untagged x content', '#[ts(untagged, content = "c")] enum S { A(i32) }'), ('untagged x content', '#[ts(untagged, content = "c")] enum S { #[ts(skip)] H, A { x: i32 } }'),
]


def rejection_part(rep):
    """Native guard (the real derive, compiled, run on concrete inputs -- no solver): every documented-invalid field attribute set is
    rejected in EVERY position a field can occur in (struct / tuple struct / newtype, and the three variant shapes under every tagging
    and every variant-level override), with an error and without a panic.  The attribute tables themselves are decided symbolically
    above; this part checks that each position actually routes its fields through them."""
    nat = G['native']
    reqs, meta = [], []
    for pname, pkind, tmpl, is_enum in REJECT_POSITIONS:
        for what, attr, fty, where in REJECT_FIELD_ATTRS:
            if where != 'all' and where != pkind:
                continue
            for e in (REJECT_ENUM if is_enum else ['']):
                for v in (REJECT_VARIANT if is_enum else ['']):
                    src = tmpl.format(A=attr, F=fty, E=e, V=v)
                    reqs.append(['expand', src])
                    meta.append((pname, what, src))
    # container- and variant-level inputs that are invalid on any reading of the documentation
    for what, src in REJECT_ITEMS:
        reqs.append(['expand', src])
        meta.append(('item', what, src))
    ans = nat.batch(reqs)
    ob = di = 0
    for (pname, what, src), a in zip(meta, ans):
        ob += 1
        if a[0] == 'ok':
            rep.violations.append({'what': f'invalid field attributes ({what}) on a {pname} are accepted silently: `{src}` expands', 'witness': {'item': src},
                                   'key': f'reject/{pname}/{what}'})
        elif 'panic' in a[0] or (len(a) > 1 and 'panicked' in str(a[1])):
            rep.violations.append({'what': f'the derive panics on `{src}`: {a}', 'witness': {'item': src}, 'key': f'reject-panic/{pname}/{what}'})
        else:
            di += 1
    rep.absorb(dict(obligations=ob, discharged=di))
    rep.part('native rejection corpus (positions x invalid field attributes x taggings x variant overrides)', inputs=ob)


def optional_probe_part(rep):
    """Tier B: "`optional` on a field that is not an Option is a compile error" rests on a probe the derive plants in the generated
    code: `check_that_field_is_option::<FieldType>` (bounded by `IsOption`) next to every field carrying `#[ts(optional..)]`.  For every
    corpus item, the set of probes the generated inline() calls must be exactly one per such field, instantiated at the field's type
    (or at its `as` type)."""
    from . import tyres, c07
    tyres.setup()
    TG = tyres.G
    ob = di = 0
    for name, item in TG['corpus'].items():
        src = item['src']
        fields = re.findall(r'#\[ts\(([^\]]*\boptional\b(?!_)[^\]]*)\)\]\s*(?:pub\s+)?(?:r#)?\w+\s*:\s*([^,}]+(?:<[^{}]*>)?)', src)
        want = set()
        for attr, ty in fields:
            a = re.search(r'\bas\s*=\s*"([^"]+)"', attr)
            want.add(re.sub(r'\s+', '', a.group(1) if a else ty))
        if not want:
            continue
        ty_text = c07.type_text(name, item)
        ex = Explorer()

        def h(ctx):
            r = tyres.Resolver(item['generics'])
            m = tyres.machine(ctx, r)
            try:
                m.call(f'<{ty_text} as TS>::inline', [])
            except Panic:
                pass
            return {re.sub(r'\s+', '', q.group(1)) for c in m.calls for q in [re.search(r'::check_that_field_is_option::<(.*)>$', c)] if q}
        try:
            res = ex.run(h)
        except Unsupported as e:
            rep.inconclusive.append(f'optional probe {name}: {e}')
            continue
        rep.absorb(dict(paths=ex.paths, nontrivial=ex.paths, queries=ex.queries, solver_s=ex.solver_s))
        for pc, got in res:
            ob += 1
            norm = lambda t: re.sub(r'\b(std::option::|std::vec::|core::option::)', '', t)
            if {norm(g) for g in got} != {norm(w) for w in want}:
                rep.violations.append({'what': f'{src}: fields marked `optional` are {sorted(want)} but the generated code probes {sorted(got)} for being an '
                                               f'Option: a non-Option field would be accepted silently', 'witness': {'item': name}, 'key': f'optprobe/{name}'})
            else:
                di += 1
    rep.absorb(dict(obligations=ob, discharged=di))
    rep.part('compile-time Option probe per `optional` field (tier B corpus)', obligations=ob)


def main():
    rep = report.Report('C16', 'bounded symbolic execution of rustc MIR: attribute records with every Option/bool a solver variable, lazily '
                               'created syn items, identifiers/names as symbolic strings; z3 decides on every path "no panic", "every documented '
                               'conflict is rejected" and "nothing else is rejected"')
    setup()
    quick = TIER == 'quick'
    G['time_budget'] = 1500 if quick else 7000
    fns = G['fns']
    rep.functions = describe(fns, list(G['av'].values()) + [G['tagged'], G['check_attributes'], G['optional_or'], G['raw_name'],
                                                            G['ts_field'], G['ts_variant']])
    rep.configs = ['ts-rs-macros: serde-compat']
    for kind in ('FieldAttr', 'StructAttr', 'EnumAttr', 'VariantAttr'):
        try:
            validity_part(rep, kind)
        except Unsupported as e:
            rep.inconclusive.append(f'assert_validity({kind}): {e}')
    for part in (tagged_part, small_kernels):
        try:
            part(rep)
        except Unsupported as e:
            rep.inconclusive.append(f'{part.__name__}: {e}')
    N, NU = (4, 3) if quick else (6, 4)          # ASCII-only identifiers up to N, with the non-ASCII sample up to NU
    NR, NRU = (3, 2) if quick else (5, 3)
    items = [(p, r, n, False) for p in ('field', 'variant') for r in c09.RULES for n in range(1, N + 1)]
    items += [(p, r, n, True) for p in ('field', 'variant') for r in c09.RULES for n in range(1, NU + 1)]
    items += [('rawname', '-', n, False) for n in range(0, NR + 1)] + [('rawname', '-', n, True) for n in range(1, NRU + 1)]
    items.sort(key=lambda it: -(it[2] + (2 if it[3] else 0)))
    results = par.pmap(explore_nopanic, items)
    cand = []
    for r in results:
        cand += r.pop('violations', [])
        rep.absorb(r)
    seen = {}
    for c in cand:
        seen.setdefault((c['what'], c['rule']), c)
    for c in seen.values():
        nat = G['native'].one('rawname', c['input']) if c['what'] == 'rawname' else G['native'].one('inflect', c['rule'], c['what'], c['input'])
        c['native'] = nat
        if nat[0] == 'panic':
            rep.violations.append({'what': f'derive panics: {c["what"]} {c["rule"]} on {c["input"]!r}: {nat[1]}', 'witness': c,
                                   'key': f'{c["what"]}/{c["rule"]}'})
        else:
            rep.inconclusive.append(f'engine panic path does not reproduce natively: {c}')
    rep.bounds = {'attribute_records': 'every Option / bool / Optional field of FieldAttr, StructAttr, EnumAttr, VariantAttr symbolic (all 2^n '
                                       'combinations, decided per path)', 'item_shapes': 'Fields kind symbolic; Field.ident / Variant.fields lazy',
                  'identifiers': f'length 1..{N} over ASCII identifier chars, 1..{NU} with the non-ASCII sample, 8 rules x field/variant',
                  'raw names': f'length 0..{NR} over [a A _ $ 0 - space " \\ newline], 1..{NRU} with the non-ASCII sample'}
    rep.outside += ['that an accepted expansion compiles (needs rustc in the loop)', 'panics inside syn / quote / proc_macro2',
                    'the type_def / format_field / format_variant code generators themselves (they build token streams)']
    rep.assumptions += ['the frozen incompatibility table lists exactly the conflicts diagnosed at the pinned commit (it is the specification '
                        'of "documented as incompatible")']
    rejection_part(rep)
    try:
        optional_probe_part(rep)
    except Unsupported as e:
        rep.inconclusive.append(f'optional probe part: {e}')
    return rep.finish()


def replay(path):
    import json
    setup()
    w = json.load(open(path))['witness']
    if 'item' in w:
        r = G['native'].one('expand', w['item'])
        print(w['item'], '->', r[0], r[1][:200] if len(r) > 1 else '')
        return 1 if r[0] == w['native'][0] else 0
    nat = G['native'].one('rawname', w['input']) if w['what'] == 'rawname' else G['native'].one('inflect', w['rule'], w['what'], w['input'])
    print(nat)
    return 1 if nat[0] == 'panic' else 0


if __name__ == '__main__':
    if len(sys.argv) > 2 and sys.argv[1] == '--replay':
        sys.exit(replay(sys.argv[2]))
    run_main(main)
