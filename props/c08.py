"""C08 -- import specifiers resolve to the dependency's file for every path pair.

Executed symbolically (real MIR, both feature dumps): import_path -> diff_paths -> path::absolute (x2), with
std::path as validated models. Oracle: an independent resolver written on the component level (it does not reuse
diff_paths): the specifier, resolved against the directory of the importing file, must denote the imported file.
"""
from .common import *

SLASH, DOT = 47, 46
ALPHA = '/.ats'            # symbolic path bytes range over this alphabet
G = {}


def setup():
    G['fns'] = {'plain': build.parsed(build.tsrs_mir(())), 'esm': build.parsed(build.tsrs_mir(('import-esm',)))}
    enums, structs = srcinfo.scan([os.path.join(REPO, 'ts-rs', 'src')])
    enums['Component'] = ['Prefix', 'RootDir', 'CurDir', 'ParentDir', 'Normal']
    enums['Cow'] = ['Borrowed', 'Owned']
    G['enums'] = enums
    G['native'] = {'plain': build.Native('tsrs'), 'esm': build.Native('tsrs-esm')}
    for cfg in ('plain', 'esm'):
        one_fn(G['fns'][cfg], 'import_path')


# ------------------------------------------------------------------------------------------ independent oracle
def is_c(m, c, k):
    if not is_sym(c):
        return c == k
    return m.ctx.decide(c == z3.BitVecVal(k, CH))


def comps(m, cs):
    """(rooted, [component char lists]) -- '.' components dropped, '..' kept as the marker PARENT"""
    rooted = bool(cs) and is_c(m, cs[0], SLASH)
    parts, cur = [], []
    for c in cs:
        if is_c(m, c, SLASH):
            parts.append(cur)
            cur = []
        else:
            cur.append(c)
    parts.append(cur)
    out = []
    for p in parts:
        if not p:
            continue
        if len(p) == 1 and is_c(m, p[0], DOT):
            continue
        if len(p) == 2 and is_c(m, p[0], DOT) and is_c(m, p[1], DOT):
            out.append('PARENT')
        else:
            out.append(p)
    return rooted, out


def spec_abs(m, cwd, cs):
    """normalised absolute component list of cwd/cs, or None when the path climbs above the root"""
    rooted, cc = comps(m, cs)
    stack = [] if rooted else list(comps(m, cwd)[1])
    for c in cc:
        if c == 'PARENT':
            if not stack:
                return None
            stack.pop()
        else:
            stack.append(c)
    return stack


def comp_eq(m, a, b):
    """decide component equality (forks on symbolic chars)"""
    if len(a) != len(b):
        return False
    for x, y in zip(a, b):
        if is_sym(x) or is_sym(y):
            if not m.ctx.decide(bv(x, CH) == bv(y, CH)):
                return False
        elif x != y:
            return False
    return True


def ends_with(m, cs, text):
    if len(cs) < len(text):
        return False
    return all(is_c(m, c, ord(t)) for c, t in zip(cs[-len(text):], text))


def check_spec(m, cwd, frm, imp, res, esm):
    """returns None when `res` satisfies the property for (frm, imp), else a description"""
    F = spec_abs(m, cwd, frm)
    I = spec_abs(m, cwd, imp)
    kind, val = res
    if kind == 'panic':
        return 'panic: ' + val
    if F is None or I is None:
        return None if kind == 'err' else 'a path climbs above the root but the result is not an error'
    # the imported path must name a file: its last component is a normal name (not `.`/`..`, not empty)
    _, raw = comps(m, imp)
    if not raw or raw[-1] == 'PARENT' or not I:
        return None if kind != 'panic' else 'panic: ' + val
    if kind == 'err':
        return 'both paths are valid but the result is an error'
    D = F[:-1]
    # a regular file cannot be an ancestor directory of another file: outside the fragment
    if len(I) <= len(D) and all(comp_eq(m, x, y) for x, y in zip(I, D)):
        return None
    s = list(val.cs)
    if any(isinstance(c, int) and c == 92 for c in s):
        return 'backslash in specifier'
    if esm:
        if not ends_with(m, s, '.js'):
            return 'import-esm: specifier does not end in .js'
        s = s[:-3]
    if not ((len(s) >= 2 and is_c(m, s[0], DOT) and is_c(m, s[1], SLASH)) or
            (len(s) >= 3 and is_c(m, s[0], DOT) and is_c(m, s[1], DOT) and is_c(m, s[2], SLASH))):
        return 'specifier does not start with ./ or ../'
    # resolve the module name against D: s + ".ts" when the imported file carries the extension, s itself otherwise (a file without
    # the .ts extension is imported verbatim -- nothing is stripped)
    has_ts = bool(I) and ends_with(m, I[-1], '.ts')
    _, sc = comps(m, s + ([ord(x) for x in '.ts'] if has_ts else []))
    stack = list(D)
    for c in sc:
        if c == 'PARENT':
            if not stack:
                return 'specifier climbs above the root'
            stack.pop()
        else:
            stack.append(c)
    if len(stack) != len(I) or not all(comp_eq(m, x, y) for x, y in zip(stack, I)):
        return 'specifier + ".ts" does not resolve to the imported file'
    return None


def run_import_path(m, cfg, frm, imp):
    fns = G['fns'][cfg]
    try:
        r = m.exec_fn(fns['import_path'], [ValRef(RStr(frm)), ValRef(RStr(imp))])
    except Panic as e:
        return ('panic', str(e))
    if r.disc == 0:
        return ('ok', r.fields[0])
    return ('err', r.fields[0])


def explore_components(item):
    """component mode: both paths are `c1/c2/../ck/<file>.ts` with every ci one symbolic letter -- spends the symbolic budget on
    names rather than on separators, so that deeper relations (divergence followed by equal names at equal depth, repeated names,
    unequal depths) are covered"""
    cfg, cwd, kf, ki, pre_f, pre_i = item
    esm = cfg == 'esm'
    fs = [z3.BitVec(f'f{i}', CH) for i in range(kf)]
    isy = [z3.BitVec(f'i{i}', CH) for i in range(ki)]
    ex = Explorer(time_budget=G.get('time_budget'))
    for c in fs + isy:
        ex.solver.add(z3.Or([c == z3.BitVecVal(ord(x), CH) for x in 'ats']))
    frm = [ord(c) for c in pre_f]
    for c in fs:
        frm += [c, SLASH]
    frm += [ord(c) for c in 'X.ts']
    imp = [ord(c) for c in pre_i]
    for c in isy:
        imp += [c, SLASH]
    imp += [ord(c) for c in 'D.ts']
    cwdc = [ord(c) for c in cwd]
    out = {'violations': [], 'samples': [], 'obligations': 0, 'discharged': 0, 'models': set(), 'inconclusive': []}

    def harness(ctx):
        m = Machine(G['fns'][cfg], MODELS, ctx, G['enums'])
        m.env['cwd'] = cwdc
        res = run_import_path(m, cfg, frm, imp)
        out['models'].update(m.calls)
        return res, check_spec(m, cwdc, frm, imp, res, esm)
    try:
        for pc, (res, why) in ex.run(harness):
            out['obligations'] += 1
            if why is None:
                out['discharged'] += 1
                if not out['samples'] and res[0] == 'ok' and pc and ex.check(pc) == z3.sat:
                    mdl = ex.model()
                    out['samples'].append({'cfg': cfg, 'from': show(frm, mdl), 'import': show(imp, mdl), 'specifier': show(res[1], mdl)})
                continue
            if ex.check(pc) == z3.sat:
                mdl = ex.model()
                out['violations'].append({'cfg': cfg, 'cwd': cwd, 'from': show(frm, mdl), 'import': show(imp, mdl),
                                          'engine_result': res[0] + (':' + show(res[1], mdl) if res[0] == 'ok' else ''), 'why': why})
    except Unsupported as e:
        out['inconclusive'].append(f'{item}: {e}')
    out.update(paths=ex.paths, nontrivial=ex.nontrivial, queries=ex.queries, solver_s=ex.solver_s)
    out['models'] = sorted(out['models'])
    return out


def explore(item):
    if item[0] == 'components':
        return explore_components(item[1:])
    cfg, cwd, base_f, nf, base_i, ni = item[:6]
    suffix = item[6] if len(item) > 6 else '.ts'
    esm = cfg == 'esm'
    fs = [z3.BitVec(f'f{i}', CH) for i in range(nf)]
    isy = [z3.BitVec(f'i{i}', CH) for i in range(ni)]
    ex = Explorer(time_budget=G.get('time_budget'))
    for c in fs + isy:
        ex.solver.add(z3.Or([c == z3.BitVecVal(ord(x), CH) for x in ALPHA]))
    frm = [ord(c) for c in base_f] + fs + [ord(c) for c in '.ts']
    imp = [ord(c) for c in base_i] + isy + [ord(c) for c in suffix]
    cwdc = [ord(c) for c in cwd]
    out = {'violations': [], 'samples': [], 'obligations': 0, 'discharged': 0, 'models': set(), 'inconclusive': []}

    def harness(ctx):
        m = Machine(G['fns'][cfg], MODELS, ctx, G['enums'])
        m.env['cwd'] = cwdc
        res = run_import_path(m, cfg, frm, imp)
        out['models'].update(m.calls)
        why = check_spec(m, cwdc, frm, imp, res, esm)
        return res, why
    try:
        for pc, (res, why) in ex.run(harness):
            out['obligations'] += 1
            if why is None:
                out['discharged'] += 1
                if not out['samples'] and res[0] == 'ok' and pc and ex.check(pc) == z3.sat:
                    mdl = ex.model()
                    out['samples'].append({'cfg': cfg, 'cwd': cwd, 'from': show(frm, mdl), 'import': show(imp, mdl),
                                           'specifier': show(res[1], mdl)})
                continue
            if ex.check(pc) == z3.sat:        # the oracle's verdict is per path; the path must be feasible
                mdl = ex.model()
                out['violations'].append({'cfg': cfg, 'cwd': cwd, 'from': show(frm, mdl), 'import': show(imp, mdl),
                                          'engine_result': res[0] + (':' + show(res[1], mdl) if res[0] == 'ok' else ''),
                                          'why': why})
    except Unsupported as e:
        out['inconclusive'].append(f'{item}: {e}')
    out.update(paths=ex.paths, nontrivial=ex.nontrivial, queries=ex.queries, solver_s=ex.solver_s)
    out['models'] = sorted(out['models'])
    return out


# ------------------------------------------------------------------------------------------ native side
def native_import_path(cfg, cwd, pairs):
    os.makedirs(cwd, exist_ok=True) if not os.path.isdir(cwd) else None
    return G['native'][cfg].batch([['import_path', a, b] for a, b in pairs], cwd=cwd)


def concrete(cfg, cwd, a, b):
    ex = Explorer()

    def h(ctx):
        m = Machine(G['fns'][cfg], MODELS, ctx, G['enums'])
        m.env['cwd'] = [ord(c) for c in cwd]
        return run_import_path(m, cfg, [ord(c) for c in a], [ord(c) for c in b])
    res = ex.run(h)
    assert len(res) == 1
    k, v = res[0][1]
    return ('ok', show(v)) if k == 'ok' else (k,)


def concrete_verdict(cfg, cwd, a, b, native_res):
    """oracle applied to a concrete native result: is it a violation?"""
    ex = Explorer()
    if native_res[0] == 'ok':
        res = ('ok', S(native_res[1]))
    elif native_res[0] == 'panic':
        res = ('panic', native_res[1])
    else:
        res = ('err', None)

    def h(ctx):
        m = Machine(G['fns'][cfg], MODELS, ctx, G['enums'])
        return check_spec(m, [ord(c) for c in cwd], [ord(c) for c in a], [ord(c) for c in b], res, cfg == 'esm')
    return ex.run(h)[0][1]


def validate(rep, count, cwds):
    rnd = random.Random(SEED)
    alpha = ['/', '.', 'a', 'b', 't', 's', '.', '/']
    cases = [('o/x/A.ts', 'o/y/B.ts'), ('./bindings/a/A.ts', './bindings/B.ts'), ('A.ts', 'b/../../../../x.ts'),
             ('x/A.ts', 'x/A.ts.ts'), ('bindings/A.ts', 'bindings/A.ts'), ('/abs/out/A.ts', '/abs/out/x/B.ts'),
             ('a/../out/A.ts', './a/./out/B.ts'), ('x.ts/A.ts', 'x.ts'), ('A.ts', '/..'), ('bindings/a.b/C.ts', 'bindings/ts/ts.ts')]
    for _ in range(count):
        cases.append((''.join(rnd.choice(alpha) for _ in range(rnd.randint(1, 9))) + rnd.choice(['', '.ts']),
                      ''.join(rnd.choice(alpha) for _ in range(rnd.randint(0, 9))) + rnd.choice(['', '.ts'])))
    for cfg in ('plain', 'esm'):
        for cwd in cwds:
            nat = native_import_path(cfg, cwd, cases)
            bad = 0
            for (a, b), n in zip(cases, nat):
                try:
                    mine = concrete(cfg, cwd, a, b)
                except Unsupported as e:
                    rep.inconclusive.append(f'validation: engine cannot run import_path({a!r}, {b!r}): {e}')
                    return
                n_ = ('ok', n[1]) if n[0] == 'ok' else (n[0],)
                if mine != n_:
                    bad += 1
                    if bad <= 3:
                        rep.inconclusive.append(f'translator validation mismatch [{cfg}, cwd={cwd}] import_path({a!r}, {b!r}): '
                                                f'engine={mine} native={n_}')
            rep.validated(f'import_path vs native [{cfg}]', len(cases), bad)


def main():
    rep = report.Report('C08', 'bounded symbolic execution of rustc MIR: import_path/diff_paths/absolute on two paths with symbolic bytes; '
                               'an independent component-level resolver decides on every path whether the specifier denotes the imported file')
    setup()
    quick = TIER == 'quick'
    G['time_budget'] = 1500 if quick else 7000
    fns = G['fns']['plain']
    kernel = ['import_path', 'diff_paths', 'export::path::absolute']
    rep.functions = describe(fns, kernel) + [dict(d, config='import-esm') for d in describe(G['fns']['esm'], ['import_path'])]
    rep.configs = ['ts-rs: default features', 'ts-rs: import-esm']
    # the modelled working directories exist on every Linux system, so the native runs use the very same cwd
    cwds = ['/tmp'] if quick else ['/', '/tmp']
    validate(rep, 150 if quick else 1500, cwds)
    bases = ['', 'o/', './', '/', 'a/../', '../', '/tmp/']
    total = 6          # thorough widens the cells (both working directories, 7 x 5 base pairs, every split of the 6 symbolic bytes); (3 cwds, 10 x 10 bases, 8 bytes) ran past 45 minutes
    items = []
    for cwd in cwds:
        for cfg in ('plain', 'esm'):
            for bf in bases:
                for bi in (['', 'o/', '/tmp/', '../', './'] if not quick else ['', 'o/', '/tmp/', '../']):
                    if cfg == 'esm' and (bf, bi) not in (('', ''), ('o/', 'o/'), ('', '../'), ('/', '')):
                        continue          # the esm suffix is independent of the path arithmetic: fewer cells
                    for nf in range(0, total + 1):
                        ni = total - nf
                        if quick and nf not in (1, 2, 3, 4):
                            continue
                        items.append((cfg, cwd, bf, nf, bi, ni))
                        if (bf, bi) in (('', ''), ('o/', 'o/'), ('', '../')) and nf <= 2:
                            items.append((cfg, cwd, bf, nf, bi, min(ni, 4 if quick else 5), ''))      # imported file without the .ts suffix
                            if nf >= 1:
                                # names with an inner extension: declaration files (`x.d.ts`), `x.js.ts`, `x.ts.ts`
                                for sfx in ('.d.ts', '.js.ts', '.ts.ts'):
                                    items.append((cfg, cwd, bf, nf, bi, min(ni, 2), sfx))
    comp_items = []
    for kf in range(0, 4 if quick else 5):
        for ki in range(0, 4 if quick else 5):
            if kf + ki > (5 if quick else 7):
                continue
            for pre_f, pre_i in (('', ''), ('o/', 'o/'), ('', '../')) if quick else (('', ''), ('o/', 'o/'), ('', '../'), ('a/../', ''), ('/tmp/', '')):
                comp_items.append(('components', 'plain', cwds[0], kf, ki, pre_f, pre_i))
    comp_items.append(('components', 'esm', cwds[0], 2, 2, '', ''))
    items += comp_items
    rep.bounds = {'component_mode': f'{len(comp_items)} cells: from = <pre>c1/../ck/X.ts, import = <pre>d1/../dj/D.ts, every ci, di one symbolic letter over {{a,t,s}}, '
                                    f'k, j up to {3 if quick else 4}',
                  'alphabet_of_symbolic_bytes': ALPHA, 'from': '<base><nf symbolic bytes>.ts', 'import': '<base><ni symbolic bytes>.ts, and for some cells <base><ni symbolic bytes> (file name without forced extension)',
                  'nf_plus_ni': total, 'bases': bases, 'cwd': cwds, 'cells': len(items)}
    rep.outside += ['Windows separators (cfg!(target_os) is constant-folded on this target)', 'symlinks', 'non-UTF-8 paths',
                    'importing files whose name does not end in .ts', 'imported paths that do not name a file (ending in `.`, `..`)', 'longer symbolic parts / other alphabets',
                    'import path that is an ancestor directory of the importing file (impossible on a file system)']
    rep.assumptions += ['std::path models (components, join/push, parent, to_string_lossy) are faithful: validated against the native build',
                        'std::env::current_dir() returns the modelled cwd']
    results = par.pmap(explore, items)
    cand = []
    for r in results:
        cand += r.pop('violations', [])
        rep.absorb(r)
    # native replay
    seen = {}
    for c in cand:
        seen.setdefault((c['cfg'], c['why']), c)
    for c in seen.values():
        fa, ia = c['from'], c['import']
        nat = G['native'][c['cfg']].one('import_path', fa, ia, cwd=c['cwd'])
        why = concrete_verdict(c['cfg'], c['cwd'], fa, ia, nat)
        c['native'] = nat
        if why is not None:
            rep.violations.append({'what': f'import_path({fa!r}, {ia!r}) [{c["cfg"]}, cwd={c["cwd"]}] = {nat}: {why}', 'witness': c,
                                   'key': c['cfg'] + '/' + why})
        else:
            rep.inconclusive.append(f'engine counterexample does not reproduce natively: {c}')
    return rep.finish()


def replay(path):
    import json
    setup()
    w = json.load(open(path))['witness']
    nat = G['native'][w['cfg']].one('import_path', w['from'], w['import'], cwd=w['cwd'])
    why = concrete_verdict(w['cfg'], w['cwd'], w['from'], w['import'], nat)
    print('native:', nat, '->', why or 'ok')
    return 1 if why else 0


if __name__ == '__main__':
    if len(sys.argv) > 2 and sys.argv[1] == '--replay':
        sys.exit(replay(sys.argv[2]))
    run_main(main)
