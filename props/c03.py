"""C03 -- exported files import exactly the names they use, from where they live (runtime half).

Executed symbolically (real MIR): export_to_string::<T> -> generate_imports::<T::WithoutGenerics> (closures included),
TS::dependencies (default body), Dependency::from_ty, TS::ident defaults, import_path/diff_paths/absolute, over an abstract
universe of types whose names, placements, exportability and visit sequence are symbolic. Oracle: the import block is parsed
back and checked against an independent specification (visited & exportable & not in T's file  <=>  imported exactly once, from a
specifier that resolves to the dependency's file; sorted; no self import).
The macro half (which types the derive makes the visitor report) is tier B and not part of this check.
"""
from .common import *
from . import c08
from mirsym.universe import Universe, UType

G = {}
# placements of dependencies; T itself lives in T.ts (so `T.ts` and `s/../T.ts` are two spellings of T's own file)
MENU = ['T.ts', 'a.ts', './a.ts', 's/a.ts', '../a.ts', 's/../a.ts', 's/../T.ts']
NOTE = c08.__dict__.get('NOTE')


def o(t):
    return [ord(c) for c in t]


def setup():
    c08.setup()
    G.update(c08.G)
    enums, structs = srcinfo.scan([os.path.join(REPO, 'ts-rs', 'src')])
    G['structs'] = structs
    Machine.fn_generics = srcinfo.fn_generics([os.path.join(REPO, 'ts-rs', 'src')])
    src = open(os.path.join(REPO, 'ts-rs', 'src', 'export.rs')).read()
    note = re.search(r'const NOTE: &str = "(.*)";', src)
    G['note'] = bytes(note.group(1), 'utf-8').decode('unicode_escape')


def machine(ctx, cfg='plain', cwd='/tmp', env=None):
    m = Machine(G['fns'][cfg], MODELS, ctx, G['enums'])
    m.struct_fields = G['structs']
    m.env['cwd'] = o(cwd)
    m.env['env'] = env or {}
    return m


# ------------------------------------------------------------------------------------------ parsing the import block back
def split_on(m, cs, k):
    parts, cur = [], []
    for c in cs:
        if c08.is_c(m, c, k):
            parts.append(cur)
            cur = []
        else:
            cur.append(c)
    parts.append(cur)
    return parts


def starts(m, cs, text):
    return len(cs) >= len(text) and all(c08.is_c(m, c, ord(t)) for c, t in zip(cs, text))


def parse_file(m, cs, note):
    """-> (imports [(names [chars], spec chars)], rest chars) or a string describing the malformation"""
    if not starts(m, cs, note):
        return 'file does not begin with the notice'
    lines = split_on(m, cs[len(note):], 10)
    imports = []
    i = 0
    while i < len(lines) and starts(m, lines[i], 'import type { '):
        ln = lines[i][len('import type { '):]
        # names up to " } from "
        j = 0
        while j < len(ln) and not c08.is_c(m, ln[j], ord('}')):
            j += 1
        if j >= len(ln) or j == 0:
            return 'import statement without `}`'
        names_part = ln[:j - 1] if c08.is_c(m, ln[j - 1], 32) else None
        if names_part is None:
            return 'import statement: no space before `}`'
        tail = ln[j:]
        if not starts(m, tail, '} from "') or len(tail) < 10 or not (c08.is_c(m, tail[-1], ord(';')) and c08.is_c(m, tail[-2], ord('"'))):
            return 'import statement: malformed tail'
        spec = tail[len('} from "'):-2]
        names = []
        for part in split_on(m, names_part, ord(',')):
            if part and c08.is_c(m, part[0], 32):
                part = part[1:]
            names.append(part)
        imports.append((names, spec))
        i += 1
    if i >= len(lines) or lines[i]:
        return 'imports are not followed by an empty line'
    rest = []
    for k, ln in enumerate(lines[i + 1:]):
        rest += (o('\n') if k else []) + ln
    return imports, rest


def str_less(m, a, b):
    for x, y in zip(a, b):
        if is_sym(x) or is_sym(y):
            if m.ctx.decide(bv(x, CH) == bv(y, CH)):
                continue
            return m.ctx.decide(z3.ULT(bv(x, CH), bv(y, CH)))
        if x != y:
            return x < y
    return len(a) < len(b)


def join(m, base, out):
    """Path::join: an absolute second path replaces the first"""
    if out and c08.is_c(m, out[0], 47):
        return list(out)
    return o(base) + list(out)


def check_imports(m, cwd, base, t_out, deps, imports, esm):
    """deps: [(name chars, out chars)] = visited, exportable, not T itself. returns None or a description"""
    tfile = c08.spec_abs(m, o(cwd), join(m, base, t_out))
    tdir = tfile[:-1]
    need = []
    for name, out in deps:
        f = c08.spec_abs(m, o(cwd), join(m, base, out))
        same = len(f) == len(tfile) and all(c08.comp_eq(m, x, y) for x, y in zip(f, tfile))
        if not same:
            need.append((name, f))
    found = [0] * len(need)
    prev_spec = None
    for names, spec in imports:
        if prev_spec is not None and not str_less(m, prev_spec, spec):
            return 'import statements are not strictly sorted by specifier'
        prev_spec = spec
        s = list(spec)
        if esm:
            if not c08.ends_with(m, s, '.js'):
                return 'import-esm: specifier without .js'
            s = s[:-3]
        if not (starts(m, s, './') or starts(m, s, '../')):
            return 'specifier is not relative'
        _, sc = c08.comps(m, s + o('.ts'))
        stack = list(tdir)
        for c in sc:
            if c == 'PARENT':
                if not stack:
                    return 'specifier climbs above the root'
                stack.pop()
            else:
                stack.append(c)
        if len(stack) == len(tfile) and all(c08.comp_eq(m, x, y) for x, y in zip(stack, tfile)):
            return 'file imports from itself'
        prev = None
        for nm in names:
            if prev is not None and not str_less(m, prev, nm):
                return 'names in an import statement are not strictly sorted'
            prev = nm
            hit = False
            for k, (dn, df) in enumerate(need):
                if len(dn) == len(nm) and all(c08.comp_eq(m, [x], [y]) for x, y in zip(dn, nm)) if False else c08.comp_eq(m, dn, nm):
                    if len(df) == len(stack) and all(c08.comp_eq(m, x, y) for x, y in zip(df, stack)):
                        found[k] += 1
                        hit = True
            if not hit:
                return 'imported name does not belong to a visited dependency living in that file'
    for k, n in enumerate(found):
        if n == 0:
            return 'a visited dependency living in another file is not imported'
    return None


def explore(item):
    cfg, base, seq_tail, symplace = item[:4]
    esm = cfg == 'esm'
    ex = Explorer(time_budget=G.get('time_budget'))
    names = [ord('T')] + [z3.BitVec(f'n{i}', CH) for i in range(1, 4)]
    for c in names[1:]:
        ex.solver.add(z3.Or([c == ord(x) for x in 'ABa']))
    ex.solver.add(z3.Distinct(*names[1:]))       # assumption: distinct TypeScript names (otherwise no correct module exists)
    place = [z3.Int(f'place{i}') for i in range(1, 4)]
    exportable3 = z3.Bool('exportable3')
    symb = [z3.BitVec(f'p{j}', CH) for j in range(symplace)]
    for c in symb:
        ex.solver.add(z3.Or([c == ord(x) for x in '/.at']))
    permv = z3.Int('perm')
    import itertools
    out = {'violations': [], 'samples': [], 'obligations': 0, 'discharged': 0, 'models': set(), 'inconclusive': []}
    env = {'TS_RS_EXPORT_DIR': o(base)} if base is not None else {}
    basedir = (base if base.endswith('/') else base + '/') if base is not None else './bindings/'

    def harness(ctx):
        m = machine(ctx, cfg, '/tmp', env)
        outs = []
        for i in range(1, 4):
            if i == 1 and symplace:
                outs.append(symb + o('.ts'))
            else:
                menu = MENU if i == 1 else item[4]
                outs.append(o(menu[ctx.pick(place[i - 1], len(menu))]))
        exp3 = ctx.decide(exportable3)
        seq = [1, 2, 3] + list(seq_tail)
        types = [UType([names[0]], o('type T = 0;'), o('T.ts'), seq)]
        for i in range(1, 4):
            types.append(UType([names[i]], o('type D = 0;'), outs[i - 1] if (i < 3 or exp3) else None))
        u = Universe(types)
        u.install(m)
        try:
            r = m.call('export_to_string::<U0>', [])
        except Panic as e:
            return ('panic', str(e)), None, None
        out['models'].update(m.calls)
        visited = [(types[i].name, types[i].out) for i in sorted(set(seq)) if i != 0 and types[i].out is not None]
        # C13 twin: the same type with a permuted / duplicated visit sequence must yield the same text
        perms = item[5]
        p = list(perms[ctx.pick(permv, len(perms))]) + list(seq_tail)[::-1]
        types2 = [UType(t.name, t.decl, t.out, t.deps) for t in types]
        types2[0].deps = p
        m2 = machine(ctx, cfg, '/tmp', env)
        Universe(types2).install(m2)
        try:
            r2 = m2.call('export_to_string::<U0>', [])
        except Panic as e:
            r2 = ('panic', str(e))
        if r.disc != 0:
            # an error is legitimate only when some placement climbs above the root
            bad = any(c08.spec_abs(m, o('/tmp'), join(m, basedir, t_)) is None for _, t_ in visited)
            return ('err', bad), (r2 if isinstance(r2, tuple) else ('disc', r2.disc)), None
        text = r.fields[0].cs
        parsed = parse_file(m, text, G['note'])
        why = parsed if isinstance(parsed, str) else None
        if why is None and any(c08.spec_abs(m, o('/tmp'), join(m, basedir, t_)) is None for _, t_ in visited):
            why = 'a dependency path climbs above the root but export_to_string succeeded'
        if why is None:
            why = check_imports(m, '/tmp', basedir, o('T.ts'), visited, parsed[0], esm)
        return ('ok', text, why), r2, (outs, p)
    try:
        for pc, (res, r2, extra) in ex.run(harness):
            out['obligations'] += 1
            if res[0] == 'panic':
                if ex.check(pc) == z3.sat:
                    out['violations'].append(witness(ex.model(), names, None, item, 'export_to_string panics: ' + res[1]))
                continue
            if res[0] == 'err':
                if not res[1] and ex.check(pc) == z3.sat:
                    out['violations'].append(witness(ex.model(), names, None, item, 'export_to_string fails although every path is valid'))
                else:
                    out['discharged'] += 1
                continue
            _, text, why = res
            if why is not None:
                if ex.check(pc) == z3.sat:
                    out['violations'].append(witness(ex.model(), names, extra, item, why, text))
                continue
            # order independence (C13)
            out['obligations'] += 1
            if isinstance(r2, tuple) or r2.disc != 0:
                bad = z3.BoolVal(True)
            else:
                bad = neq_strings(text, r2.fields[0].cs)
            if ex.check(pc + [bad]) == z3.sat:
                out['violations'].append(witness(ex.model(), names, extra, item, 'output depends on the order / multiplicity of dependency visits', text))
                continue
            out['discharged'] += 2
            if not out['samples'] and ex.check(pc) == z3.sat:
                mdl = ex.model()
                out['samples'].append({'item': list(map(str, item[:4])), 'file': show(text, mdl)})
    except Unsupported as e:
        out['inconclusive'].append(f'{item}: {e}')
    out.update(paths=ex.paths, nontrivial=ex.nontrivial, queries=ex.queries, solver_s=ex.solver_s)
    out['models'] = sorted(out['models'])
    return out


def witness(mdl, names, extra, item, why, text=None):
    w = {'cfg': item[0], 'base': item[1], 'seq_tail': list(item[2]), 'why': why, 'names': show(names, mdl)}
    if extra:
        w['outs'] = [show(x, mdl) for x in extra[0]]
        w['order2'] = extra[1]
    if text is not None:
        w['engine_text'] = show(text, mdl)
    ex3 = mdl.eval(z3.Bool('exportable3'), model_completion=True)
    w['exportable3'] = z3.is_true(ex3)
    return w


# ------------------------------------------------------------------------------------------ native side
def native_text(cfg, base, names, outs, exportable3, seq, cwd='/tmp'):
    req = [['reset']]
    req.append(['setenv', 'TS_RS_EXPORT_DIR', base] if base is not None else ['unsetenv', 'TS_RS_EXPORT_DIR'])
    req.append(['cfg', '0', names[0], 'type T = 0;', 'T.ts', ','.join(map(str, seq))])
    for i in range(1, 4):
        out_ = outs[i - 1] if (i < 3 or exportable3) else '-'
        req.append(['cfg', str(i), names[i], 'type D = 0;', out_, ''])
    req.append(['export_to_string', '0'])
    return G['native'][cfg].batch(req, cwd=cwd)[-1]


def concrete_verdict(cfg, base, names, outs, exportable3, seq, nat):
    """apply the oracle to a concrete native result"""
    ex = Explorer()
    basedir = (base if base.endswith('/') else base + '/') if base is not None else './bindings/'

    def h(ctx):
        m = machine(ctx, cfg)
        visited = [(o(names[i]), o(outs[i - 1])) for i in sorted(set(seq)) if i != 0 and (i < 3 or exportable3)]
        climbs = any(c08.spec_abs(m, o('/tmp'), join(m, basedir, t_)) is None for _, t_ in visited)
        if nat[0] == 'panic':
            return 'panic'
        if nat[0] == 'err':
            return None if climbs else 'error although every path is valid'
        if climbs:
            return 'a dependency path climbs above the root but export_to_string succeeded'
        parsed = parse_file(m, o(nat[1]), G['note'])
        if isinstance(parsed, str):
            return parsed
        return check_imports(m, '/tmp', basedir, o('T.ts'), visited, parsed[0], cfg == 'esm')
    return ex.run(h)[0][1]


def concrete_engine(cfg, base, names, outs, exportable3, seq):
    ex = Explorer()
    env = {'TS_RS_EXPORT_DIR': o(base)} if base is not None else {}

    def h(ctx):
        m = machine(ctx, cfg, '/tmp', env)
        types = [UType(o(names[0]), o('type T = 0;'), o('T.ts'), seq)]
        for i in range(1, 4):
            types.append(UType(o(names[i]), o('type D = 0;'), o(outs[i - 1]) if (i < 3 or exportable3) else None))
        Universe(types).install(m)
        try:
            r = m.call('export_to_string::<U0>', [])
        except Panic as e:
            return ['panic']
        return ['ok', show(r.fields[0])] if r.disc == 0 else ['err']
    return ex.run(h)[0][1]


def validate(rep, count):
    rnd = random.Random(SEED)
    bad = n = 0
    menu = MENU + ['x/y/b.ts', '../../../../../../../../q.ts', 'T.ts.ts', 'a.b.ts', './s/./a.ts']
    for _ in range(count):
        cfg = rnd.choice(['plain', 'esm'])
        base = rnd.choice([None, 'out', './out/', '/tmp/out', 'a/../out'])
        names = rnd.sample(['A', 'B', 'a', 'b', 'Ab', 'Zed'], 4)
        outs = [rnd.choice(menu) for _ in range(3)]
        exp3 = rnd.random() < 0.7
        seq = [rnd.randint(0, 3) for _ in range(rnd.randint(0, 5))]
        nat = native_text(cfg, base, names, outs, exp3, seq)
        try:
            mine = concrete_engine(cfg, base, names, outs, exp3, seq)
        except Unsupported as e:
            rep.inconclusive.append(f'validation: engine cannot run export_to_string: {e}')
            return
        n += 1
        nat_ = ['ok', nat[1]] if nat[0] == 'ok' else [nat[0]]
        if mine != nat_:
            bad += 1
            if bad <= 3:
                rep.inconclusive.append(f'translator validation mismatch export_to_string [{cfg} base={base} names={names} outs={outs} '
                                        f'exp3={exp3} seq={seq}]: engine={mine} native={nat_}')
    rep.validated('export_to_string over the type universe vs native', n, bad)


def items_for(quick):
    import itertools
    items = []
    allperms = [list(p) for p in itertools.permutations([1, 2, 3])]
    # thorough: (5 bases, 5 tails, the full menu for every dependency, all 6 permutations) ran past 50 minutes; the grid below is about
    # 3-4x the quick one per cell and keeps every axis
    bases = [None, 'out'] if quick else [None, 'out', './o/']
    tails = [(), (0,), (1,)] if quick else [(), (0,), (1,), (3, 3)]
    menu23 = ['T.ts', 'a.ts', '../a.ts', 's/../T.ts'] if quick else list(dict.fromkeys(['T.ts', 'a.ts', '../a.ts', 's/../T.ts'] + list(MENU)))[:5]
    perms = [allperms[5], allperms[3]] if quick else [allperms[5], allperms[3], allperms[1]]
    for cfg in ('plain', 'esm'):
        for base in (bases if cfg == 'plain' else bases[:1]):
            for tail in (tails if (cfg == 'plain' and base is None) else tails[:2]):
                items.append((cfg, base, tail, 0, menu23, perms))
            items.append((cfg, base, (), 2, menu23[:3], perms[:2]))       # 3 symbolic placement bytes quadruple these cells: not run
    return items


def run(rep, quick):
    """shared by C03 and C13; returns candidate violations"""
    items = items_for(quick)
    results = par.pmap(explore, items)
    cand = []
    for r in results:
        cand += r.pop('violations', [])
        rep.absorb(r)
    return items, cand


def confirm(rep, cand, only=None):
    seen = {}
    for c in cand:
        seen.setdefault((c['cfg'], c['why']), c)
    for c in seen.values():
        is13 = c['why'].startswith('output depends on the order')
        if only == 'order' and not is13:
            continue
        if only == 'imports' and is13:
            continue
        if 'outs' not in c:
            rep.inconclusive.append(f'engine finding without replayable witness: {c}')
            continue
        names = list(c['names'])
        seq = [1, 2, 3] + c['seq_tail']
        nat = native_text(c['cfg'], c['base'], names, c['outs'], c['exportable3'], seq)
        c['native'] = nat
        if is13:
            nat2 = native_text(c['cfg'], c['base'], names, c['outs'], c['exportable3'], c['order2'])
            c['native_order2'] = nat2
            if nat != nat2:
                rep.violations.append({'what': f'{c["why"]}: {seq} vs {c["order2"]}', 'witness': c, 'key': c['why']})
            else:
                rep.inconclusive.append(f'engine counterexample does not reproduce natively: {c}')
            continue
        why = concrete_verdict(c['cfg'], c['base'], names, c['outs'], c['exportable3'], seq, nat)
        if why is not None:
            rep.violations.append({'what': f'{why} [names {names}, placements {c["outs"]}, base {c["base"]}, {c["cfg"]}] -> {nat}',
                                   'witness': c, 'key': why})
        else:
            rep.inconclusive.append(f'engine counterexample does not reproduce natively: {c}')


def common_report_fields(rep, items):
    fns = G['fns']['plain']
    names = ['export_to_string', 'generate_imports', 'generate_decl', 'default_out_dir', 'TS::dependencies', 'TS::ident', 'import_path',
             'diff_paths', 'export::path::absolute'] + fn_names(fns, '', 'generate_imports::{closure') + \
        fn_names(fns, '>::from_ty') + fn_names(fns, '>::visit', 'TS::dependencies')
    rep.functions = describe(fns, [n for n in names if n in fns])
    rep.configs = ['ts-rs: default features', 'ts-rs: import-esm']
    rep.bounds = {'universe': 'T (in T.ts) visits D1, D2, D3 then a tail; names: T, and 3 distinct symbolic letters over {A,B,a} for D1..D3; D3 exportable or not',
                  'placements_menu': MENU, 'symbolic_placement_bytes_for_D1': sorted({i[3] for i in items}),
                  'visit_tails': sorted({str(i[2]) for i in items}), 'export_dir': sorted({str(i[1]) for i in items}),
                  'second_order': 'every permutation of D1..D3 followed by the reversed tail (C13 twin)', 'cells': len(items)}
    rep.assumptions += ['distinct dependency types have distinct TypeScript names', 'std models validated against the native build',
                        'what the derive makes visit_dependencies report is given (macro half: tier B)']
    rep.stubs += ['<Ui as TS>::{name, decl, output_path, visit_dependencies, DOCS}: harness-defined universe; all other TS methods run their '
                  'default MIR bodies', 'std::env::var -> modelled environment', 'std::env::current_dir -> /tmp']


def macro_half(rep):
    """Tier B: for every corpus item, the types the derive-generated visit_dependencies reports are exactly the types its
    inline()/decl() text refers to: a parameter referenced BY NAME is visited (directly, or through visit_generics of a container
    that is visited), a parameter that is INLINED or FLATTENED contributes its own dependencies, and nothing else is reported."""
    from . import tyres, c07
    from mirsym.interp import Hole
    tyres.setup()
    TG = tyres.G
    ob = di = 0
    for name, item in TG['corpus'].items():
        gens = item['generics']
        ty = c07.type_text(name, item)
        ex = Explorer()

        def h(ctx):
            r = tyres.Resolver(gens)
            m = tyres.machine(ctx, r)
            try:
                inl = list(m.call(f'<{ty} as TS>::inline', []).cs)
                used = list(r.direct)
                r.log.clear()
                r.direct.clear()
                m.call(f'<{ty} as TS>::visit_dependencies::<impl TypeVisitor>', [ValRef(('visitor',))])
            except Panic as e:
                return ('panic', str(e), None)
            return ('ok', inl, (list(r.log), used, list(r.direct)))
        try:
            res = ex.run(h)
        except Unsupported as e:
            rep.inconclusive.append(f'macro half, {name}: {e}')
            continue
        rep.absorb(dict(paths=ex.paths, nontrivial=ex.paths, queries=ex.queries, solver_s=ex.solver_s))
        for pc, (k, inl, log) in res:
            ob += 1
            used = reported = []
            if k != 'panic':
                log, used, reported = log
            if k == 'panic':
                rep.violations.append({'what': f'{item["src"]}: inline()/visit_dependencies panics: {inl}', 'witness': {'item': name}, 'key': f'mh/{name}/panic'})
                continue
            by_name = {c.label.split('.')[0] for c in inl if isinstance(c, Hole) and c.label.endswith('.name') and c.label.split('.')[0] in gens}
            inlined = {c.label.split('.')[0] for c in inl if isinstance(c, Hole) and (c.label.endswith('.inline') or c.label.endswith('.inline_flattened'))
                       and c.label.split('.')[0] in gens}
            visited = {t for op, t in log if op == 'visit' and t in gens}
            fwd_deps = {t for op, t in log if op == 'forward_visit_dependencies'}
            fwd_gens = {t for op, t in log if op == 'forward_visit_generics'}
            # concretised parameters are replaced by their concrete type in the binding but the field still has the parameter's type
            conc = set(item['concrete'])
            why = None
            if not (by_name - conc) <= visited:
                why = f'parameter(s) {sorted(by_name - conc - visited)} are referred to by name but not reported as dependencies'
            elif not (by_name - conc) <= fwd_gens:
                # the argument bound to the parameter may itself be generic (`T = Vec<Row>`): its name mentions its own arguments
                why = f'parameter(s) {sorted(by_name - conc - fwd_gens)} are referred to by name but their generic arguments are not reported'
            elif not (visited - conc) <= by_name:
                why = f'parameter(s) {sorted(visited - by_name)} are reported as dependencies but their name is not used'
            elif not inlined <= fwd_deps:
                why = f'inlined/flattened parameter(s) {sorted(inlined - fwd_deps)} do not contribute their dependencies'
            elif not fwd_deps <= inlined:
                why = f'dependencies of {sorted(fwd_deps - inlined)} are forwarded although the parameter is not inlined'
            else:
                # the same rule for the corpus types a field refers to (`Inner<T>` by name and / or inlined, possibly both in one item)
                corp = lambda t: re.match(r'^(\w+)', t) and re.match(r'^(\w+)', t).group(1) in TG['corpus'] and not t.startswith(name + '<') and t != name
                n_used = {t for t, meth in used if meth == 'name' and corp(t)}
                i_used = {t for t, meth in used if meth in ('inline', 'inline_flattened') and corp(t)}
                vis = {tyres.strip_lifetimes(t) for op, t in log if op == 'visit'}
                gen_calls = {t for t, meth in reported if meth == 'visit_generics'}
                dep_calls = {t for t, meth in reported if meth == 'visit_dependencies'}
                if not n_used <= vis:
                    why = f'type(s) {sorted(n_used - vis)} are referred to by name but not reported as dependencies'
                elif not n_used <= gen_calls:
                    why = f'type(s) {sorted(n_used - gen_calls)} are referred to by name but their generic arguments are not reported'
                elif not i_used <= dep_calls:
                    why = f'inlined / flattened type(s) {sorted(i_used - dep_calls)} do not contribute their dependencies'
                else:
                    # nothing the binding does not mention: a skipped field, a `type`-overridden field, the original of an `as`
                    text = tyres.show_rope(inl)
                    extra = sorted(t for t in vis if corp(t) and not re.search(r'(?<![\w.])' + re.match(r'^(\w+)', t).group(1) + r'(?![\w.])', text))
                    if extra:
                        why = f'type(s) {extra} are reported as dependencies but the binding does not mention them'
            if why:
                rep.violations.append({'what': f'{item["src"]}: {why} [inline = {tyres.show_rope(inl)!r}, reported = {log}]',
                                       'witness': {'item': name, 'log': log}, 'key': f'mh/{name}'})
            else:
                di += 1
    rep.absorb(dict(obligations=ob, discharged=di))
    rep.part('macro half (tier B corpus)', items=len(TG['corpus']), obligations=ob)


def main():
    rep = report.Report('C03', 'bounded symbolic execution of rustc MIR: export_to_string/generate_imports over an abstract type universe with '
                               'symbolic names, placements, exportability and visit sequence; the import block is parsed back and decided '
                               'against an independent specification on every path')
    setup()
    quick = TIER == 'quick'
    G['time_budget'] = 2400 if quick else 9000
    validate(rep, 40 if quick else 400)
    items, cand = run(rep, quick)
    common_report_fields(rep, items)
    rep.outside += ['the macro half beyond the tier-B corpus (props/tyres.py): concrete user types as dependencies, parameter defaults',
                    'more than 3 dependencies, longer names, placements outside the menu / longer symbolic parts',
                    'that the imported file was written by the same export (C11)']
    confirm(rep, cand, only='imports')
    try:
        macro_half(rep)
    except Unsupported as e:
        rep.inconclusive.append(f'macro half: {e}')
    try:
        generic_instantiation_part(rep)
    except Unsupported as e:
        rep.inconclusive.append(f'generic instantiation part: {e}')
    try:
        shared_file_imports(rep, quick)
    except Unsupported as e:
        rep.inconclusive.append(f'shared files: {e}')
    return rep.finish()


def generic_instantiation_part(rep):
    """A generic type's file is written from its dummy-parameter form (`T::WithoutGenerics`): whichever instantiation is exported, the
    text -- imports included -- is the same and imports only what the generic declaration uses.  Universe: U0 = `P<User>` and U5 =
    `P<Invoice>` (same name / declaration / file), both with WithoutGenerics = U4 = `P<Dummy>`; U1 = User, U2 = a type the body uses,
    U3 = the non-exportable dummy, U6 = Invoice."""
    ob = di = 0
    for cfg in ('plain', 'esm'):
        for place2 in ('B.ts', 'sub/B.ts', '../B.ts'):
            ex = Explorer()

            def h(ctx):
                res = []
                for root in (0, 5):
                    m = machine(ctx, cfg, '/tmp', {})
                    decl = o('type P<X> = { items: Array<X>, b: B, };')
                    types = [UType(o('P'), decl, o('P.ts'), [1, 2], without_generics=4), UType(o('User'), o('type User = 0;'), o('User.ts')),
                             UType(o('B'), o('type B = 0;'), o(place2)), UType(o('Dummy'), None, None),
                             UType(o('P'), decl, o('P.ts'), [3, 2]), UType(o('P'), decl, o('P.ts'), [6, 2], without_generics=4),
                             UType(o('Invoice'), o('type Invoice = 0;'), o('Invoice.ts'))]
                    Universe(types).install(m)
                    try:
                        r = m.call(f'export_to_string::<U{root}>', [])
                    except Panic as e:
                        res.append(('panic', str(e)))
                        continue
                    if r.disc != 0:
                        res.append(('err', None))
                        continue
                    text = r.fields[0].cs
                    parsed = parse_file(m, text, G['note'])
                    why = parsed if isinstance(parsed, str) else check_imports(m, '/tmp', './bindings/', o('P.ts'), [(o('B'), o(place2))], parsed[0], cfg == 'esm')
                    res.append(('ok', show(text), why))
                return res
            try:
                out_ = ex.run(h)
            except Unsupported as e:
                rep.inconclusive.append(f'generic instantiation part: {e}')
                return
            rep.absorb(dict(paths=ex.paths, nontrivial=ex.nontrivial, queries=ex.queries, solver_s=ex.solver_s))
            for pc, res in out_:
                ob += 1
                why = None
                for r in res:
                    if r[0] != 'ok':
                        why = f'export_to_string of an instantiation fails: {r}'
                    elif r[2]:
                        why = f'file of a generic type: {r[2]} [{r[1]!r}]'
                if why is None and res[0][1] != res[1][1]:
                    why = f'the file of a generic type depends on which instantiation is exported: {res[0][1]!r} vs {res[1][1]!r}'
                if why:
                    rep.violations.append({'what': why, 'witness': {'cfg': cfg, 'placement_of_B': place2}, 'key': 'geninst/' + why[:40]})
                else:
                    di += 1
    rep.absorb(dict(obligations=ob, discharged=di))
    rep.part('generic instantiations share one file written from the dummy-parameter form', cells=6)


def shared_file_imports(rep, quick):
    """Files holding several types: the import block of the merged file is the union of what its declarations need (each name once).
    Reduced C05 cells whose types import DIFFERENT names from the SAME path and from different paths; the canonical-file oracle of
    props/c05.py implies import closure of the merged file."""
    from . import c05
    c05.setup()
    c05.G['time_budget'] = G.get('time_budget')
    items5 = []
    for perm in ([0], [1]):
        items5.append(dict(k=2, doc0='fixed', body0=1, imps=[[1, 3], [0, 2, 3]], docs=[[0], [0]], generic=[], perms=perm))
    for perm in range(6):
        items5.append(dict(k=3, doc0='fixed', body0=0, imps=[[1], [3], [2]] if quick else [[1, 3], [3, 2], [2, 0]], docs=[[0], [0], [0]],
                           generic=[], perms=[perm]))
    cand5, cand5_i = [], []
    for r in par.pmap(c05.explore, items5):
        cand5 += r.pop('violations', [])
        cand5_i += r.pop('violations_ident', [])
        r.pop('known_hits', None)
        rep.absorb(r)
    if cand5 and not cand5_i:
        cand5 = []
    seen = {}
    for c in cand5:
        seen.setdefault(c['what'], c)
    for c in seen.values():
        is_viol, details = c05.native_confirm(c)
        c['native'] = details
        if is_viol:
            rep.violations.append({'what': f'merged file is not the union of its types\' imports and declarations: {c["what"]} '
                                           f'(order {c["order"]}, names {c["names"]})', 'witness': c, 'key': 'shared/' + c['what']})
        else:
            rep.inconclusive.append(f'engine counterexample does not reproduce natively: {c["what"]}')
    rep.functions += describe(c05.G['fns'], ['export_and_merge', 'merge'])
    rep.bounds['shared_files'] = 'K=2 and K=3 types in one file importing different names from the same path / other paths, every export order (reduced C05 cells)'


if __name__ == '__main__':
    run_main(main)
