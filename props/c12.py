"""C12 -- built-in impls describe serde's representation of library types.

Executed symbolically (real MIR): every `impl TS` of ts-rs/src/lib.rs (direct impls and the ones made by impl_primitives!,
impl_wrapper!, impl_shadow!, impl_tuples!) with the type parameters ABSTRACT: `<T as TS>::name()` / `inline()` are uninterpreted
holes, so one execution covers every instantiation and, by parametricity, every nesting depth; the array length N is a solver
variable. Oracle: a table of serde's JSON shape per library type written as a TypeScript type over the same holes; the table is
trusted base and is itself checked natively against serde_json on sample values at every run.
"""
from .common import *
from mirsym.interp import Hole

G = {}
LIB = 'ts-rs/src/lib.rs'

# serde's JSON representation per library type, as a TypeScript type over the holes {X} = <X as TS>::name() (or ::inline())
NUM = ['u8', 'i8', 'NonZeroU8', 'NonZeroI8', 'u16', 'i16', 'NonZeroU16', 'NonZeroI16', 'u32', 'i32', 'NonZeroU32', 'NonZeroI32', 'usize',
       'isize', 'NonZeroUsize', 'NonZeroIsize', 'f32', 'f64']
BIG = ['u64', 'i64', 'NonZeroU64', 'NonZeroI64', 'u128', 'i128', 'NonZeroU128', 'NonZeroI128']
STR = ['char', 'Path', 'PathBuf', 'String', 'str', 'Ipv4Addr', 'Ipv6Addr', 'IpAddr', 'SocketAddrV4', 'SocketAddrV6', 'SocketAddr']
SHAPES = {}
for t in NUM:
    SHAPES[t] = 'number'
for t in BIG:
    SHAPES[t] = 'bigint'
for t in STR:
    SHAPES[t] = 'string'
SHAPES.update({
    'bool': 'boolean', '()': 'null',
    'Option<T>': '{T} | null', 'Result<T, E>': '{ Ok : {T} } | { Err : {E} }', 'Vec<T>': 'Array<{T}>',
    'HashMap<K, V, H>': '{ [key in {K}]?: {V} }', 'BTreeMap<K, V>': '{ [key in {K}]?: {V} }',
    'Range<I>': '{ start: {I}, end: {I}, }', 'RangeInclusive<I>': '{ start: {I}, end: {I}, }',
    'HashSet<T, H>': 'Array<{T}>', 'BTreeSet<T>': 'Array<{T}>', '[T]': 'Array<{T}>',
    '&T': '{T}', 'Box<T>': '{T}', 'std::sync::Arc<T>': '{T}', 'std::rc::Rc<T>': '{T}', "std::borrow::Cow<'a, T>": '{T}',
    'std::cell::Cell<T>': '{T}', 'std::cell::RefCell<T>': '{T}', 'std::sync::Mutex<T>': '{T}', 'std::sync::RwLock<T>': '{T}',
    'std::sync::Weak<T>': '{T} | null',             # serde (feature rc) serializes Weak as Option
    'std::marker::PhantomData<T>': 'null',          # serde serializes PhantomData as a unit struct
})
for n in range(1, 11):
    ps = [f'T{i}' for i in range(1, n + 1)]
    SHAPES['(' + ', '.join(ps) + ',)'] = '[' + ', '.join('{' + p + '}' for p in ps) + ']'
# which type arguments count as dependencies (the hasher of a map/set is not a type argument of the binding)
NOT_A_DEP = {'H'}
# type parameters that are not type arguments of the *binding* (the time zone of a DateTime never shows in its JSON)
NOT_A_DEP_OF = {'DateTime<T>': {'T'}, 'Date<T>': {'T'}}
PRIMS = set(NUM) | set(BIG) | set(STR) | {'bool', '()'}
INLINE_PANICS_OK = {'Range<I>', 'RangeInclusive<I>'} | {k for k in SHAPES if k.startswith('(')}     # documented: cannot be inlined


def setup():
    fns = build.parsed(build.tsrs_mir(()))
    enums, structs = srcinfo.scan([os.path.join(REPO, 'ts-rs', 'src')])
    G['fns'], G['enums'], G['structs'] = fns, enums, structs
    Machine.fn_generics = srcinfo.fn_generics([os.path.join(REPO, 'ts-rs', 'src')])
    G['impls'] = impl_table(fns)
    consts = re.search(r'const ARRAY_TUPLE_LIMIT: usize = (\d+);', open(os.path.join(REPO, LIB)).read())
    G['limit'] = int(consts.group(1)) if consts else 64


# ------------------------------------------------------------------------------------------ which impl is which
def macro_of_line(lines, ln):
    for i in range(ln - 1, -1, -1):
        m = re.match(r'\s*macro_rules!\s+(\w+)', lines[i])
        if m:
            return m.group(1)
    return None


def invocations(src, features=()):
    """macro name -> [(self type text, [generic params])] in source order (cfg'd-out invocations skipped)"""
    out = {'impl_primitives': [], 'impl_wrapper': [], 'impl_shadow': [], 'impl_tuples': []}
    txt = re.sub(r'//[^\n]*', '', src)
    # drop modules that are compiled out as a whole: #[cfg(feature = "x")] mod name { .. }
    while True:
        mm = None
        for cand in re.finditer(r'#\[cfg\(feature = "([^"]+)"\)\]\s*mod\s+\w+\s*\{', txt):
            if cand.group(1) not in features:
                mm = cand
                break
        if mm is None:
            break
        depth, j = 0, mm.end() - 1
        while j < len(txt):
            if txt[j] == '{':
                depth += 1
            elif txt[j] == '}':
                depth -= 1
                if depth == 0:
                    break
            j += 1
        txt = txt[:mm.start()] + txt[j + 1:]
    for m in re.finditer(r'((?:#\[cfg\(feature = "([^"]+)"\)\]\s*)?)(impl_primitives|impl_wrapper|impl_shadow|impl_tuples)!\s*([({])', txt):
        if txt[max(0, m.start() - 30):m.start()].rstrip().endswith('macro_rules!') or 'macro_rules' in txt[max(0, m.start() - 14):m.start()]:
            continue
        if m.group(2) and m.group(2) not in features:
            continue
        open_i = m.end() - 1
        close = {'(': ')', '{': '}'}[m.group(4)]
        depth, j = 0, open_i
        while j < len(txt):
            if txt[j] == m.group(4):
                depth += 1
            elif txt[j] == close:
                depth -= 1
                if depth == 0:
                    break
            j += 1
        body = txt[open_i + 1:j]
        name = m.group(3)
        if 'impl_primitives' == name and '$' in body:
            continue
        if name == 'impl_primitives':
            for grp in mirparse.split_top(body.replace('\n', ' ').replace('=>', '\x01')):
                t = grp.split('\x01')[0].strip()
                if t:
                    out[name].append((t.split('::')[-1] if '<' not in t else t, []))
        elif name == 'impl_tuples':
            if body.strip().startswith('impl') or '$' in body:
                continue
            ps = [p.strip() for p in body.split(',') if p.strip()]
            for k in range(len(ps), 0, -1):
                sel = ps[len(ps) - k:]
                # the recursive macro peels the FIRST parameter off: (T1..T10), (T2..T10), ... ; names are positional only
                out[name].append(('(' + ', '.join(sel) + ',)', sel))
        else:
            if '$' in body:
                continue
            mm = re.search(r'impl\s*(<(.*?)>)?\s*TS for (.*)$', body.strip().replace('\n', ' '))
            gens = []
            if mm.group(2):
                for p in mirparse.split_top(mm.group(2)):
                    p = p.strip()
                    if p.startswith("'") or p.startswith('const '):
                        continue
                    gens.append(p.split(':')[0].strip())
            shadow = re.match(r'as (.*?):\s*impl', body.strip()) if name == 'impl_shadow' else None
            out[name].append((mm.group(3).strip(), gens, shadow.group(1).strip() if shadow else None))
    return out


def impl_table(fns):
    """[(self type text, [type params], {method: fn key}, kind)]"""
    src_path = os.path.join(REPO, LIB)
    src = open(src_path).read()
    lines = src.split('\n')
    inv = invocations(src)
    groups = {}
    for k, f in fns.items():
        m = re.match(r'^<impl at ' + re.escape(LIB) + r':(\d+):(\d+): (\d+):(\d+)>::(\w+)(#\d+)?$', k)
        if m and hasattr(f, 'blocks'):
            span = tuple(int(m.group(i)) for i in range(1, 5))
            idx = int(m.group(6)[1:]) if m.group(6) else 0
            groups.setdefault((span, idx), {})[m.group(5)] = k
    table = []
    spans = sorted({s for s, _ in groups})
    for span in spans:
        count = len([1 for s, _ in groups if s == span])
        mac = macro_of_line(lines, span[0] - 1)
        inside_macro = mac is not None and re.search(r'\$', lines[span[0] - 1]) is not None or (mac and count > 1)
        if count > 1 or (mac in inv and inv.get(mac) and lines[span[0] - 1].lstrip().startswith(('impl<$', '$(', 'impl TS for $'))):
            lst = inv.get(mac, [])
            if len(lst) != count:
                raise Unsupported(f'{mac}: {count} expansions in the MIR dump but {len(lst)} invocations found in the source')
            for idx, ent in enumerate(lst):
                table.append((ent[0], ent[1], groups[(span, idx)], mac, ent[2] if len(ent) > 2 else None))
        else:
            hdr = ' '.join(lines[span[0] - 1][span[1] - 1:].split('{')[0].split()) if span[0] == span[2] else None
            hdr = hdr or ' '.join(' '.join(lines[span[0] - 1:span[2]]).split())
            mm = re.match(r'^impl\s*(<(.*?)>)?\s*(?:crate::)?TS for (.*?)\s*(where.*)?$', hdr.split('{')[0].strip())
            if not mm:
                continue        # impls of other traits (Display for Dummy, TypeVisitor ...)
            gens = []
            if mm.group(2):
                for p in mirparse.split_top(mm.group(2)):
                    p = p.strip()
                    if p.startswith("'"):
                        continue
                    gens.append(p.replace('const ', '').split(':')[0].strip())
            table.append((mm.group(3).strip(), gens, groups[(span, 0)], 'direct', None))
    return table


# ------------------------------------------------------------------------------------------ execution with abstract parameters
def type_unify(pat, ty, params):
    """match type text `ty` against `pat` whose identifiers in `params` are variables; returns a substitution or None"""
    pat, ty = pat.strip(), ty.strip()
    if pat in params:
        return {pat: ty}
    pm = re.match(r'^([\w:]+)<(.*)>$', pat)
    tm = re.match(r'^([\w:]+)<(.*)>$', ty)
    if pm and tm:
        if pm.group(1).split('::')[-1] != tm.group(1).split('::')[-1]:
            return None
        pa, ta = mirparse.split_top(pm.group(2)), mirparse.split_top(tm.group(2))
        pa = [a for a in pa if not a.startswith("'")]
        ta = [a for a in ta if not a.startswith("'")]
        if len(ta) > len(pa):
            return None
        sub = {}
        for a, b in zip(pa, ta):          # trailing defaulted parameters (the hasher) may be omitted
            s = type_unify(a, b, params)
            if s is None:
                return None
            sub.update(s)
        return sub
    if pat.startswith('&') and ty.startswith('&'):
        return type_unify(pat[1:].replace('mut ', '', 1), ty[1:].replace('mut ', '', 1), params)
    if pat.startswith('(') and ty.startswith('(') and pat.endswith(')') and ty.endswith(')'):
        pa = [a for a in mirparse.split_top(pat[1:-1]) if a.strip()]
        ta = [a for a in mirparse.split_top(ty[1:-1]) if a.strip()]
        if len(pa) != len(ta):
            return None
        sub = {}
        for a, b in zip(pa, ta):
            s_ = type_unify(a, b, params)
            if s_ is None:
                return None
            sub.update(s_)
        return sub
    if pat.startswith('[') and ty.startswith('[') and pat.endswith(']') and ty.endswith(']'):
        def semi(t):
            parts, cur, d = [], '', 0
            for ch in t:
                d += ch in '[(<'
                d -= ch in '])>'
                if ch == ';' and d == 0:
                    parts.append(cur)
                    cur = ''
                else:
                    cur += ch
            return parts + [cur]
        pi, ti = semi(pat[1:-1]), semi(ty[1:-1])
        if len(pi) != len(ti):
            return None
        sub = {}
        for a, b in zip(pi, ti):
            s = type_unify(a, b, params)
            if s is None:
                return None
            sub.update(s)
        return sub
    return {} if pat.split('::')[-1] == ty.split('::')[-1] else None


class Rec:
    def __init__(self):
        self.log = []


def machine(ctx, params, rec, n_value=None):
    m = Machine(G['fns'], MODELS, ctx, G['enums'])
    m.struct_fields = G['structs']
    rx = re.compile(r'^<(.+) as (?:crate::|\$crate::)?TS>::(\w+)(?:::<(.*)>)?$')

    def ts_method(mm, callee, args):
        q = rx.match(callee)
        ty, meth = q.group(1).strip(), q.group(2)
        # rustc prints the NonZero aliases resolved
        ty = re.sub(r'\b(?:std::num::)?NonZero<([ui])(\d+|size)>', lambda a: 'NonZero' + (a.group(1).upper() + a.group(2) if a.group(2) != 'size' else a.group(1).upper() + 'size'), ty)
        if ty in params:
            if meth in ('name', 'inline', 'inline_flattened', 'ident'):
                return RStr([Hole(f'{ty}.{meth}')])
            if meth in ('visit_generics', 'visit_dependencies'):
                rec.log.append(('forward_' + meth, ty))
                return ()
            if meth in ('decl', 'decl_concrete'):
                return RStr([Hole(f'{ty}.{meth}')])
            if meth == 'output_path':
                return Enum(z3.If(z3.Bool(f'{ty}.exportable'), z3.BitVecVal(1, 64), z3.BitVecVal(0, 64)), [RStr([Hole(f'{ty}.path')])], 'Option?')
            raise Unsupported(f'abstract {callee}')
        for self_ty, gens, meths, kind, shadow in G['impls']:
            sub = type_unify(self_ty, ty, set(gens))
            if sub is not None and meth in meths:
                saved = getattr(mm, 'cur_subst', {})
                mm.cur_subst = dict(sub)
                try:
                    return mm.exec_fn(mm.fns[meths[meth]], args)
                finally:
                    mm.cur_subst = saved
        if meth in ('ident', 'visit_generics', 'visit_dependencies', 'output_path') and f'TS::{meth}' in mm.fns:
            saved = getattr(mm, 'cur_subst', {})
            mm.cur_subst = {'Self': ty}
            try:
                return mm.exec_fn(mm.fns[f'TS::{meth}'], args)
            finally:
                mm.cur_subst = saved
        raise Unsupported(f'no impl found for {callee}')

    def visit(mm, callee, args):
        rec.log.append(('visit', re.search(r'::visit::<(.*)>$', callee).group(1)))
        return ()
    m.stubs += [(rx, ts_method), (re.compile(r'^<impl (?:crate::)?TypeVisitor as (?:crate::)?TypeVisitor>::visit::<'), visit)]
    m.type_rewrites = [(re.compile(r'\$crate::'), 'crate::')]
    prev = m.const_hook

    def hook(mm, text):
        if re.fullmatch(r'\d+(_?usize)?', text.strip()):
            return int(re.match(r'\d+', text.strip()).group(0))        # a const generic argument substituted for its parameter
        if text == 'N' and n_value is not None:
            return n_value
        if text == 'ARRAY_TUPLE_LIMIT':
            return G['limit']
        return prev(mm, text) if prev else None
    m.const_hook = hook
    return m


def template(shape, which):
    """'{T} | null' -> rope with holes T.name / T.inline"""
    out = []
    for part in re.split(r'(\{[A-Z]\w*\})', shape):
        if re.fullmatch(r'\{[A-Z]\w*\}', part):
            out.append(Hole(f'{part[1:-1]}.{which}'))
        else:
            out.extend(ord(c) for c in part)
    return out


def explore(item):
    idx = item
    self_ty, gens, meths, kind, shadow = G['impls'][idx]
    out = {'violations': [], 'known_hits': {}, 'samples': [], 'obligations': 0, 'discharged': 0, 'models': set(), 'inconclusive': []}
    shape = SHAPES.get(self_ty)
    if kind == 'impl_tuples' and gens:
        shape = '[' + ', '.join('{' + g + '}' for g in gens) + ']'      # serde: a tuple is a fixed-length array
    is_array = self_ty.replace(' ', '') == '[T;N]'
    if shape is None and not is_array:
        if self_ty in ('Dummy',):
            return dict(out, paths=0, nontrivial=0, queries=0, solver_s=0.0, models=[])
        out['inconclusive'].append(f'no entry in the serde shape table for built-in impl `{self_ty}` (new impl? extend props/c12.py)')
        return dict(out, paths=0, nontrivial=0, queries=0, solver_s=0.0, models=[])
    params = set(gens)
    tot = dict(paths=0, nontrivial=0, queries=0, solver_s=0.0)
    for meth in ('name', 'inline', 'visit_generics', 'visit_dependencies'):
        if meth.startswith('visit') and self_ty == 'serde_json::Value':
            continue        # shadows the derive-generated TsJsonValue: its dependency reporting is the derive's (C03/C11 macro half)
        if meth not in meths:
            if meth in ('visit_generics', 'visit_dependencies') and not (params - NOT_A_DEP - NOT_A_DEP_OF.get(self_ty, set()) - {'N'}):
                continue        # the trait default (visits nothing) is right for types without type arguments
            if meth == 'visit_dependencies' and (self_ty in INLINE_PANICS_OK or kind == 'impl_tuples'):
                continue        # only reached through inline()/flatten, which this type does not support
            if meth.startswith('visit'):
                out['obligations'] += 1
                out['violations'].append({'impl': self_ty, 'method': meth, 'why': f'{meth} is not implemented although the type has type arguments'})
            continue
        ex = Explorer(time_budget=G.get('time_budget'))
        nvar = z3.BitVec('N', 64)
        if is_array:
            ex.solver.add(z3.ULE(nvar, G['limit'] + 2))

        def harness(ctx):
            rec = Rec()
            n_conc = None
            if is_array:
                # the length is a solver variable; it becomes concrete per path through a case split
                for k in range(0, G['limit'] + 2):
                    if ctx.decide(nvar == k):
                        n_conc = k
                        break
                else:
                    n_conc = G['limit'] + 2
            m = machine(ctx, params, rec, n_conc)
            arg = [ValRef(('visitor',))] if meth.startswith('visit') else []
            try:
                r = m.exec_fn(G['fns'][meths[meth]], arg)
            except Panic as e:
                out['models'].update(m.calls)
                return ('panic', str(e)), rec.log, n_conc
            out['models'].update(m.calls)
            return ('ok', r), rec.log, n_conc
        try:
            for pc, ((k, r), log, n_conc) in ex.run(harness):
                out['obligations'] += 1
                why = None
                if meth in ('name', 'inline'):
                    which = meth
                    if is_array:
                        want = template('Array<{T}>', which) if n_conc > G['limit'] else \
                            [ord('[')] + sum(([Hole(f'T.{which}')] + ([ord(','), ord(' ')] if i + 1 < n_conc else []) for i in range(n_conc)), []) + [ord(']')]
                    else:
                        want = template(shape[which] if isinstance(shape, dict) else shape, which)
                    if k == 'panic':
                        if not (meth == 'inline' and (self_ty in INLINE_PANICS_OK or kind == 'impl_tuples')):
                            why = f'{meth}() panics: {r}'
                    elif list(r.cs) != want:
                        why = f'{meth}() = {show_rope(r.cs)!r}, serde\'s representation is {show_rope(want)!r}'
                else:
                    args_ = [g for g in gens if g not in NOT_A_DEP and g != 'N' and g not in NOT_A_DEP_OF.get(self_ty, set())]
                    if k == 'panic':
                        why = f'{meth} panics: {r}'
                    elif meth == 'visit_generics':
                        visited = [t for op, t in log if op == 'visit']
                        # a shadow over a concrete primitive (`Bytes` as Vec<u8>) visits that primitive: it has no file and cannot
                        # become a dependency, so it does not count
                        visited = [t for t in visited if t in params or t not in PRIMS]
                        fwd = [t for op, t in log if op == 'forward_visit_generics']
                        if sorted(visited) != sorted(args_) or sorted(fwd) != sorted(args_) or any(op == 'forward_visit_dependencies' for op, _ in log):
                            why = f'visit_generics visits {visited} and forwards {fwd}; the type arguments are {args_}'
                    else:
                        fwd = [t for op, t in log if op == 'forward_visit_dependencies']
                        if sorted(fwd) != sorted(args_) or any(op == 'visit' for op, _ in log):
                            why = f'visit_dependencies forwards {fwd} and visits {[t for op, t in log if op == "visit"]}; expected to forward exactly {args_}'
                if why is None:
                    out['discharged'] += 1
                    if not out['samples'] and k == 'ok' and meth == 'name':
                        out['samples'].append({'impl': self_ty, 'name()': show_rope(r.cs), 'N': n_conc})
                    continue
                if ex.check(pc) != z3.sat:
                    continue
                v = {'impl': self_ty, 'method': meth, 'why': why, 'N': n_conc}
                if self_ty in ('std::marker::PhantomData<T>', 'std::sync::Weak<T>') and meth in ('name', 'inline'):
                    out['known_hits'].setdefault('F05-phantomdata-weak', v)
                else:
                    out['violations'].append(v)
        except Unsupported as e:
            out['inconclusive'].append(f'{self_ty}::{meth}: {e}')
        for kk in tot:
            tot[kk] += getattr(ex, kk)
    out.update(tot)
    out['models'] = sorted(out['models'])
    return out


def show_rope(cs):
    return ''.join(chr(c) if isinstance(c, int) else '{' + c.label + '}' for c in cs)


# ------------------------------------------------------------------------------------------ compositions
COMPOSE = ['Option<T>', 'Vec<T>', 'Box<T>', 'HashMap<K, V, H>', 'Result<T, E>', '(T1, T2,)', '[T; N]', 'BTreeSet<T>', 'std::rc::Rc<T>', '[T]']


def compose_part(rep):
    """An impl that inspects the TEXT of its argument (`contains`, `starts_with`, `replace` ..) is opaque to the hole-based execution
    above (a hole is not searched).  So the generic impls are also run at nested instantiations built from each other -- Outer<Inner<T>>
    for every pair of COMPOSE, and Option<Outer<Inner<T>>> -- where the inner text is concrete apart from the innermost parameter; the
    expected text is the composition of the shape table."""
    impls = {t[0]: t for t in G['impls']}

    def first_param(self_ty):
        gens = impls[self_ty][1]
        for g in gens:
            if g not in NOT_A_DEP and g != 'N' and g != 'K':
                return g
        return None

    def rust_text(self_ty, arg):
        """self type with its first value parameter := arg, keys := String, N := 2, hasher dropped"""
        g = first_param(self_ty)
        t = re.sub(r',\s*H\b', '', self_ty)
        t = re.sub(r'\bK\b', 'String', t)
        t = re.sub(r'\bN\b', '2', t)
        return re.sub(r'\b' + g + r'\b', lambda _: arg, t, count=1) if arg is not None else t

    def shape_text(self_ty, which, arg_shape):
        sh = SHAPES.get(self_ty)
        if self_ty.replace(' ', '') == '[T;N]':
            sh = '[{T}, {T}]'
        if self_ty.startswith('('):
            gens = impls[self_ty][1]
            sh = '[' + ', '.join('{' + g + '}' for g in gens) + ']'
        sh = sh[which] if isinstance(sh, dict) else sh
        sh = sh.replace('{K}', 'string')
        g = first_param(self_ty)
        return sh.replace('{' + g + '}', arg_shape) if arg_shape is not None else sh

    cases = []
    for o_ in COMPOSE:
        for i_ in COMPOSE:
            if o_ not in impls or i_ not in impls:
                continue
            inner_rust = rust_text(i_, None)
            cases.append((rust_text(o_, inner_rust), o_, i_, None))
            cases.append(('Option<' + rust_text(o_, inner_rust) + '>', 'Option<T>', o_, i_))
    ob = di = 0
    for ty, a, b_, c in cases:
        for which in ('name', 'inline'):
            if which == 'inline' and any(x in INLINE_PANICS_OK or x.startswith('(') for x in (a, b_, c) if x):
                continue
            inner = shape_text(c, which, None) if c else None
            mid = shape_text(b_, which, inner)
            want = template(shape_text(a, which, mid), which)
            params = set(re.findall(r'\b(T\d*|E|V)\b', ty))
            ex = Explorer()

            def h(ctx):
                rec = Rec()
                m = machine(ctx, params, rec, 2)
                try:
                    return ('ok', list(m.call(f'<{ty} as TS>::{which}', []).cs))
                except Panic as e:
                    return ('panic', str(e))
            try:
                res = ex.run(h)
            except Unsupported as e:
                rep.inconclusive.append(f'composition {ty}::{which}: {e}')
                continue
            except (TypeError, AttributeError, KeyError, IndexError) as e:
                rep.inconclusive.append(f'composition {ty}::{which}: engine error {type(e).__name__}: {e}')
                continue
            for pc, (k, r) in res:
                ob += 1
                if k == 'ok' and r == want:
                    di += 1
                    continue
                if k == 'ok':
                    # the same type in another spelling (e.g. `T | null | null` written `T | null`) is not a finding
                    try:
                        from . import tsparse as TP
                        if TP.show(TP.normalize(TP.parse(r))) == TP.show(TP.normalize(TP.parse(want))):
                            di += 1
                            continue
                    except TP.ParseError:
                        pass
                got = show_rope(r) if k == 'ok' else f'panic: {r}'
                rep.violations.append({'what': f'<{ty} as TS>::{which}() = {got!r}, serde\'s representation is {show_rope(want)!r}',
                                       'witness': {'impl': a, 'type': ty, 'method': which}, 'key': f'compose/{a}/{b_}/{c}/{which}'})
    rep.absorb(dict(obligations=ob, discharged=di))
    rep.part('nested instantiations (compositions of the generic impls)', cases=len(cases))


# ------------------------------------------------------------------------------------------ feature-gated third-party impls
FEATS = ('chrono-impl', 'bigdecimal-impl', 'uuid-impl', 'bson-uuid-impl', 'bytes-impl', 'url-impl', 'indexmap-impl', 'ordered-float-impl',
         'heapless-impl', 'semver-impl', 'smol_str-impl', 'serde-json-impl', 'tokio-impl')
# serde_json's representation of the third-party types (serde features of those crates enabled; checked natively on sample values)
FSHAPES = {
    'BigDecimal': 'string', 'SmolStr': 'string', 'uuid::Uuid': 'string', 'Url': 'string', 'OrderedFloat<f32>': 'number',
    'OrderedFloat<f64>': 'number', 'bson::Uuid': 'string', 'semver::Version': 'string',
    'bson::oid::ObjectId': '{ "$oid": string }',          # serde_json: {"$oid":"<hex>"} (bson's Serialize writes a one-field struct)
    'NaiveDateTime': 'string', 'NaiveDate': 'string', 'NaiveTime': 'string', 'Month': 'string', 'Weekday': 'string',
    'DateTime<T>': 'string', 'serde_json::Number': 'number',
    'indexmap::IndexSet<T>': 'Array<{T}>', 'indexmap::IndexMap<K, V>': '{ [key in {K}]?: {V} }', 'heapless::Vec<T, N>': 'Array<{T}>',
    'bytes::Bytes': 'Array<number>', 'bytes::BytesMut': 'Array<number>', 'serde_json::Map<K, V>': '{ [key in {K}]?: {V} }',
    'serde_json::Value': {'name': 'JsonValue',      # a named, exported union: number | string | boolean | array | object | null
                          'inline': 'number | string | boolean | Array<JsonValue> | { [key in string]?: JsonValue } | null'},
}
# impls for types that have no serde representation at all (nothing to compare with); their dependency reporting is still checked
NO_SERDE = {'Duration', 'TimeDelta', 'Date<T>', 'Utc', 'Local', 'FixedOffset', 'Mutex<T>', 'OnceCell<T>', 'RwLock<T>', 'TsJsonValue'}
# a concrete Rust instantiation per feature-gated impl (for the native confirmation of engine findings): T = i32, K = String, V = i32
FCONCRETE = {
    'BigDecimal': 'bigdecimal::BigDecimal', 'SmolStr': 'smol_str::SmolStr', 'uuid::Uuid': 'uuid::Uuid', 'Url': 'url::Url',
    'OrderedFloat<f32>': 'ordered_float::OrderedFloat<f32>', 'OrderedFloat<f64>': 'ordered_float::OrderedFloat<f64>',
    'bson::oid::ObjectId': 'bson::oid::ObjectId', 'bson::Uuid': 'bson::Uuid', 'semver::Version': 'semver::Version',
    'NaiveDateTime': 'chrono::NaiveDateTime', 'NaiveDate': 'chrono::NaiveDate', 'NaiveTime': 'chrono::NaiveTime', 'Month': 'chrono::Month',
    'Weekday': 'chrono::Weekday', 'DateTime<T>': 'chrono::DateTime<chrono::Utc>', 'serde_json::Number': 'serde_json::Number',
    'indexmap::IndexSet<T>': 'indexmap::IndexSet<i32>', 'indexmap::IndexMap<K, V>': 'indexmap::IndexMap<String, i32>',
    'heapless::Vec<T, N>': 'heapless::Vec<i32, 4>', 'bytes::Bytes': 'bytes::Bytes', 'bytes::BytesMut': 'bytes::BytesMut',
    'serde_json::Map<K, V>': 'serde_json::Map<String, i32>', 'serde_json::Value': 'serde_json::Value',
}
MODULE_FILES = {'chrono': 'ts-rs/src/chrono.rs', 'serde_json': 'ts-rs/src/serde_json.rs', 'tokio': 'ts-rs/src/tokio.rs'}


def split_inline_modules(src):
    """lib.rs text -> (text without `mod name { .. }` blocks, {name: block text})"""
    txt = re.sub(r'//[^\n]*', '', src)
    mods = {}
    while True:
        mm = re.search(r'(?:#\[cfg\(feature = "[^"]+"\)\]\s*)?mod\s+(\w+)\s*\{', txt)
        if not mm:
            break
        depth, j = 0, mm.end() - 1
        while j < len(txt):
            if txt[j] == '{':
                depth += 1
            elif txt[j] == '}':
                depth -= 1
                if depth == 0:
                    break
            j += 1
        mods[mm.group(1)] = txt[mm.end():j]
        txt = txt[:mm.start()] + txt[j + 1:]
    return txt, mods


def body_self_type(fn):
    """the type X of the first `<X as TS>::name` call in a MIR body (impl_primitives bodies mention their own Self this way)"""
    for stmts in fn.blocks.values():
        for st in stmts:
            if st and st[0] == 'call':
                q = re.match(r'^<(.+) as (?:crate::|\$crate::)?TS>::name$', st[2])
                if q:
                    return q.group(1)
    return None


def feature_table(fns):
    """impl table of the feature-gated impls only (self types as written in FSHAPES / NO_SERDE)"""
    lib_src = open(os.path.join(REPO, LIB)).read()
    top_txt, inline_mods = split_inline_modules(lib_src)
    lines = lib_src.split('\n')
    groups = {}
    for k, f in fns.items():
        m = re.match(r'^(?:(\w+)::)?<impl at (ts-rs/src/[\w/]+\.rs):(\d+):(\d+): (\d+):(\d+)>::(\w+)(#\d+)?$', k)
        if m and hasattr(f, 'blocks'):
            span = tuple(int(m.group(i)) for i in range(3, 7))
            idx = int(m.group(8)[1:]) if m.group(8) else 0
            groups.setdefault((m.group(1) or '', m.group(2), span, idx), {})[m.group(7)] = k
    table = []
    by_macro = {}
    for (mod, file, span, idx), meths in sorted(groups.items()):
        if file != LIB:
            continue
        mac = macro_of_line(lines, span[0] - 1)
        if mac in ('impl_primitives', 'impl_wrapper', 'impl_shadow'):
            by_macro.setdefault((mod, mac, span), []).append((idx, meths))
    for (mod, mac, span_), lst in sorted(by_macro.items()):
        lst.sort(key=lambda x_: x_[0])
        if mod == '' and len(lst) == 1:
            continue        # a direct impl that merely follows a macro definition in the file (default-feature impl: main table)
        if mod == '':
            inv_src = top_txt
        elif mod in inline_mods:
            inv_src = inline_mods[mod]
        elif mod in MODULE_FILES:
            inv_src = open(os.path.join(REPO, MODULE_FILES[mod])).read()
        else:
            raise Unsupported(f'impls in unknown module `{mod}`')
        inv = invocations(inv_src, FEATS)
        if mac == 'impl_primitives':
            for idx, meths in lst:
                src_fn = fns.get(meths.get('inline_flattened') or meths.get('decl'))
                ty = body_self_type(src_fn) if src_fn is not None else None
                if ty is None:
                    raise Unsupported(f'cannot tell the self type of an impl_primitives expansion in `{mod or "crate"}`')
                ty = re.sub(r'\b(?:std::num::)?NonZero<([ui])(\d+|size)>', lambda a: 'NonZero' + a.group(1).upper() + a.group(2), ty)
                table.append((ty, [], meths, mac, None))
        else:
            src_list = inv.get(mac, [])
            if len(src_list) != len(lst):
                raise Unsupported(f'{mac} in `{mod or "crate"}`: {len(lst)} expansions in the MIR dump but {len(src_list)} invocations in the source')
            for (idx, meths), ent in zip(lst, src_list):
                table.append((ent[0], ent[1], meths, mac, ent[2] if len(ent) > 2 else None))
    # direct impls of the module files (DateTime<T>, Date<T>, impl_dummy!, the derived TsJsonValue)
    for (mod, file, span, idx), meths in sorted(groups.items()):
        if file == LIB:
            continue
        flines = open(os.path.join(REPO, file)).read().split('\n')
        hdr = ' '.join(' '.join(flines[span[0] - 1:span[2]]).split())
        mm = re.match(r'^impl\s*(<(.*?)>)?\s*(?:crate::)?TS for (.*?)\s*(\{|where|$)', hdr[span[1] - 1:] if span[0] == span[2] else hdr)
        if mm and '$' not in mm.group(3):
            gens = [p_.split(':')[0].strip() for p_ in mirparse.split_top(mm.group(2))] if mm.group(2) else []
            table.append((mm.group(3).strip(), [g for g in gens if not g.startswith("'")], meths, 'direct', None))
        elif 'derive' in flines[span[0] - 1]:
            nm = re.search(r'\b(?:enum|struct)\s+(\w+)', ' '.join(flines[span[0] - 1:span[0] + 12]))
            if nm:
                table.append((nm.group(1), [], meths, 'derived', None))
        elif 'impl TS for $t' in hdr or '$t' in hdr:
            # impl_dummy!(Utc, Local, FixedOffset): marker types, never bound themselves
            names = re.search(r'impl_dummy!\((.*?)\)', open(os.path.join(REPO, file)).read())
            ns = [x.strip() for x in names.group(1).split(',')] if names else []
            if idx < len(ns):
                table.append((ns[idx], [], meths, 'dummy', None))
    return table


def feature_part(rep):
    """the same execution and oracle for the impls behind cargo features (every `*-impl` feature on)"""
    saved = {k: G[k] for k in ('fns', 'impls')}
    default_types = {t[0] for t in saved['impls']}
    try:
        fns = build.parsed(build.tsrs_mir(FEATS))
        G['fns'] = fns
        ftable = feature_table(fns)
        dflt = impl_table_default_for(fns, ftable)
        short = {d.split('::')[-1] for d in default_types}
        extra = [t for t in ftable if t[0] not in default_types and t[0].split('::')[-1] not in short]
        G['impls'] = dflt + extra
        first = len(dflt)
        for t in extra:
            key = t[0]
            sh = FSHAPES.get(key) or FSHAPES.get(key.split('::')[-1])
            if sh:
                SHAPES[key] = sh
        todo = [i for i in range(first, len(G['impls'])) if G['impls'][i][0] not in NO_SERDE and G['impls'][i][3] not in ('dummy', 'derived')]
        skipped = [G['impls'][i][0] for i in range(first, len(G['impls'])) if i not in todo]
        results = par.pmap(explore, todo)
        nat = native_feature_samples(rep)
        for r in results:
            for v in r.pop('violations', []):
                conf = nat.get(v['impl']) if nat else None
                v['serde_json_samples'] = conf
                if v['impl'] == 'bson::oid::ObjectId' and v['method'] in ('name', 'inline'):
                    if conf and all(js.startswith('{"$oid":') for js in conf):
                        rep.known_hits.setdefault('F16-bson-objectid', v)
                    else:
                        rep.inconclusive.append(f'witness of F16 does not reproduce natively: {v}')
                    continue
                key_ = v['impl'] if v['impl'] in FCONCRETE else v['impl'].split('::')[-1]
                natv = G.get('native_feature_names', {}).get((key_, v['method']))
                if natv is not None and v['method'] in ('name', 'inline'):
                    sh = SHAPES.get(v['impl'])
                    sh = sh[v['method']] if isinstance(sh, dict) else sh
                    want = re.sub(r'\{([A-Z]\w*)\}', lambda a: {'K': 'string'}.get(a.group(1), 'number'), sh or '')
                    v['native'] = natv
                    v['table_instantiated'] = want
                    if natv == want:
                        rep.inconclusive.append(f'engine finding does not reproduce natively: {v}')
                        continue
                rep.violations.append({'what': f'impl TS for {v["impl"]} (feature-gated): {v["why"]}', 'witness': v, 'key': f'{v["impl"]}/{v["method"]}'})
            r.pop('known_hits', None)
            rep.absorb(r)
        rep.part('feature-gated impls', impls=[G['impls'][i][0] for i in todo], not_serializable_or_markers=skipped, features=list(FEATS))
        rep.configs.append('ts-rs: all `*-impl` features (chrono, bigdecimal, uuid, bson-uuid, bytes, url, indexmap, ordered-float, heapless, semver, smol_str, serde-json, tokio)')
        rep.functions += [{'impl': G['impls'][i][0], 'kind': G['impls'][i][3], 'methods': sorted(G['impls'][i][2]), 'feature_gated': True} for i in todo]
    finally:
        G.update(saved)


def impl_table_default_for(fns, ftable):
    """the default-feature impls as they appear in the feature dump (needed as resolution targets for shadows: Vec<T>, HashMap<K, V>,
    u8 ..).  Expansions of impl_primitives! are numbered differently there, so these are taken from the feature table, where each
    expansion's self type is read off its own body; the other kinds keep their numbering (gated invocations come last in the source)."""
    prim = {t[0].split('::')[-1]: t for t in ftable if t[3] == 'impl_primitives'}
    out = []
    for self_ty, gens, meths, kind, shadow in G['impls']:
        if kind == 'impl_primitives':
            t = prim.get(self_ty.split('::')[-1])
            if t is None:
                raise Unsupported(f'primitive impl {self_ty} not found in the feature dump')
            out.append((self_ty, gens, t[2], kind, shadow))
        else:
            out.append((self_ty, gens, {m: k for m, k in meths.items() if k in fns}, kind, shadow))
    return out


def native_feature_samples(rep):
    """serde_json output for sample values of the third-party types: validates FSHAPES (the trusted table) at every run"""
    import tempfile, shutil
    scratch = tempfile.mkdtemp(prefix='tsrs-verif-c12f-')
    try:
        os.makedirs(os.path.join(scratch, 'src'))
        shutil.copy(os.path.join(REPO, 'Cargo.lock'), os.path.join(scratch, 'Cargo.lock'))
        with open(os.path.join(scratch, 'Cargo.toml'), 'w') as fh:
            feats = ', '.join(f'"{f}"' for f in FEATS)
            fh.write('[package]\nname = "c12fprobe"\nversion = "0.0.0"\nedition = "2021"\n[workspace]\n[dependencies]\n'
                     f'ts-rs = {{ path = "{os.path.join(REPO, "ts-rs")}", features = [{feats}] }}\n'
                     'serde = { version = "1", features = ["derive"] }\nserde_json = "1"\n'
                     'chrono = { version = "0.4", features = ["serde"] }\nbigdecimal = { version = "0.4", features = ["serde"] }\n'
                     'uuid = { version = "1", features = ["serde"] }\nbson = "2"\nbytes = { version = "1", features = ["serde"] }\n'
                     'url = { version = "2", features = ["serde"] }\nsemver = { version = "1", features = ["serde"] }\n'
                     'smol_str = { version = "0.3", features = ["serde"] }\nindexmap = { version = "2", features = ["serde"] }\n'
                     'ordered-float = { version = "4", features = ["serde"] }\nheapless = { version = "0.8", features = ["serde"] }\n')
        samples = [
            ('BigDecimal', '"1.5".parse::<bigdecimal::BigDecimal>().unwrap()'), ('SmolStr', 'smol_str::SmolStr::new("s")'),
            ('uuid::Uuid', 'uuid::Uuid::nil()'), ('Url', 'url::Url::parse("http://a/").unwrap()'),
            ('OrderedFloat<f32>', 'ordered_float::OrderedFloat(1.5f32)'), ('OrderedFloat<f64>', 'ordered_float::OrderedFloat(1.5f64)'),
            ('bson::oid::ObjectId', 'bson::oid::ObjectId::from_bytes([1; 12])'), ('bson::Uuid', 'bson::Uuid::from_bytes([1; 16])'),
            ('semver::Version', 'semver::Version::new(1, 2, 3)'),
            ('NaiveDateTime', 'chrono::NaiveDate::from_ymd_opt(2020, 1, 2).unwrap().and_hms_opt(3, 4, 5).unwrap()'),
            ('NaiveDate', 'chrono::NaiveDate::from_ymd_opt(2020, 1, 2).unwrap()'), ('NaiveTime', 'chrono::NaiveTime::from_hms_opt(1, 2, 3).unwrap()'),
            ('Month', 'chrono::Month::May'), ('Weekday', 'chrono::Weekday::Tue'),
            ('DateTime<T>', 'chrono::DateTime::<chrono::Utc>::from_timestamp(0, 0).unwrap()'),
            ('serde_json::Number', 'serde_json::Number::from(3)'),
            ('indexmap::IndexSet<T>', '[1i32].into_iter().collect::<indexmap::IndexSet<i32>>()'),
            ('indexmap::IndexMap<K, V>', '[("k".to_string(), 1i32)].into_iter().collect::<indexmap::IndexMap<String, i32>>()'),
            ('heapless::Vec<T, N>', '{ let mut v: heapless::Vec<i32, 4> = heapless::Vec::new(); v.push(1).unwrap(); v }'),
            ('bytes::Bytes', 'bytes::Bytes::from_static(b"ab")'), ('bytes::BytesMut', 'bytes::BytesMut::from(&b"ab"[..])'),
            ('serde_json::Map<K, V>', '{ let mut m = serde_json::Map::new(); m.insert("k".into(), serde_json::json!(1)); m }'),
        ]
        body = ['use ts_rs::TS;', 'fn main() {']
        for key, expr in samples:
            body.append(f'    println!("J\\t{{}}\\t{{}}", r#"{key}"#, serde_json::to_string(&({expr})).unwrap());')
        for key, rty in FCONCRETE.items():
            body.append(f'    println!("N\\t{{}}\\t{{}}", r#"{key}"#, <{rty} as TS>::name());')
            body.append(f'    println!("I\\t{{}}\\t{{}}", r#"{key}"#, <{rty} as TS>::inline());')
        body.append('}')
        with open(os.path.join(scratch, 'src', 'main.rs'), 'w') as fh:
            fh.write('\n'.join(body) + '\n')
        p = build.run(['cargo', 'run', '--offline', '-q', '--target-dir', os.path.join(build.CACHE, 'target-c12fprobe')], cwd=scratch)
        if p.returncode != 0:
            rep.inconclusive.append('c12 feature probe failed to build/run: ' + p.stderr[-1500:])
            return None
        got = {}
        G['native_feature_names'] = {}
        for ln in p.stdout.split('\n'):
            f = ln.split('\t')
            if f[0] == 'J':
                got.setdefault(f[1], []).append(f[2])
            elif f[0] in ('N', 'I') and len(f) > 2:
                G['native_feature_names'][(f[1], 'name' if f[0] == 'N' else 'inline')] = f[2]
    finally:
        shutil.rmtree(scratch, ignore_errors=True)
    # the table must accept each sample (a light structural test: JSON kind vs the table's outermost shape)
    bad = 0
    for key, lst in got.items():
        shape = FSHAPES.get(key, '')
        for js in lst:
            kind = 'string' if js.startswith('"') else 'number' if re.fullmatch(r'-?[\d.eE+-]+', js) else 'array' if js.startswith('[') else 'object' if js.startswith('{') else '?'
            want = 'string' if shape == 'string' else 'number' if shape == 'number' else 'array' if shape.startswith('Array<') else 'object' if shape.startswith('{') else '?'
            if kind != want:
                bad += 1
                rep.inconclusive.append(f'shape table entry for {key} ({shape}) does not accept serde_json sample {js}')
    rep.validated('third-party shape table vs serde_json on sample values', sum(len(v) for v in got.values()), bad)
    return got


# ------------------------------------------------------------------------------------------ native side
CONCRETE = {'T': 'i32', 'E': 'String', 'K': 'String', 'V': 'i32', 'I': 'i32', 'H': None, 'N': '3'}
LEAF = {'i32': 'number', 'String': 'string'}


def native_names(rep):
    """translator validation + oracle validation in one native program: for every impl, a concrete instantiation's name() and the
    JSON serde_json produces for sample values"""
    import tempfile, shutil
    rows = []
    for self_ty, gens, meths, kind, shadow in G['impls']:
        if self_ty == 'Dummy':
            continue
        ty = self_ty
        for g in gens:
            if CONCRETE.get(g) is None and g in ('H',):
                ty = re.sub(r',\s*' + g + r'\b', '', ty)
            else:
                ty = re.sub(r'\b' + g + r'\b', CONCRETE.get(g, 'i32') if not re.fullmatch(r'T\d+', g) else 'i32', ty)
        ty = ty.replace("'a, ", '')
        if ty.startswith('&'):
            ty = "&'static " + ty[1:]
        if ty == 'std::borrow::Cow<i32>':
            ty = "std::borrow::Cow<'static, i32>"
        # the same instantiation at a derived struct (its inline form differs from its name): confirms findings about inline()
        typ = self_ty
        for g in gens:
            if g in ('H',):
                typ = re.sub(r',\s*' + g + r'\b', '', typ)
            elif g != 'N':
                typ = re.sub(r'\b' + g + r'\b', 'Probe', typ)
        typ = typ.replace("'a, ", '')
        if typ.startswith('&'):
            typ = "&'static " + typ[1:]
        typ = typ.replace('std::borrow::Cow<Probe>', "std::borrow::Cow<'static, Probe>")
        rows.append((self_ty, ty, typ if (set(gens) - {'H', 'N'}) and 'N' not in gens else None))
    scratch = tempfile.mkdtemp(prefix='tsrs-verif-c12-')
    try:
        os.makedirs(os.path.join(scratch, 'src'))
        shutil.copy(os.path.join(REPO, 'Cargo.lock'), os.path.join(scratch, 'Cargo.lock'))
        with open(os.path.join(scratch, 'Cargo.toml'), 'w') as fh:
            fh.write(f'[package]\nname = "c12probe"\nversion = "0.0.0"\nedition = "2021"\n[workspace]\n[dependencies]\n'
                     f'ts-rs = {{ path = "{os.path.join(REPO, "ts-rs")}" }}\nserde = {{ version = "1", features = ["derive", "rc"] }}\nserde_json = "1"\n')
        body = ['#![allow(unused_imports)]', 'use ts_rs::TS; use std::collections::*; use std::ops::*; use std::path::*; use std::net::*; use std::num::*;',
                '#[derive(TS, Clone, serde::Serialize)] struct Probe { q: i32 }',
                'fn inl<T: TS + ?Sized>() -> String { std::panic::catch_unwind(|| T::inline()).unwrap_or_else(|_| "<panic>".into()) }',
                'fn main() {', '    std::panic::set_hook(Box::new(|_| {}));']
        for self_ty, ty, typ in rows:
            if typ:
                body.append(f'    println!("I\\t{{}}\\t{{}}", r#"{self_ty}"#, inl::<{typ}>());')
        for k in range(0, G['limit'] + 3):
            body.append(f'    println!("I\\t{{}}\\t{{}}", "[T; N]@{k}", inl::<[Probe; {k}]>());')
        for self_ty, ty, typ in rows:
            body.append(f'    println!("{{}}\\t{{}}", {self_ty!r}.trim_matches(\'\\\'\'), <{ty} as TS>::name());'.replace("'", '"', 2) if False else
                        f'    println!("N\\t{{}}\\t{{}}", r#"{self_ty}"#, <{ty} as TS>::name());')
        for k in range(0, G['limit'] + 3):
            body.append(f'    println!("N\\t{{}}\\t{{}}", "[T; N]@{k}", <[i32; {k}] as TS>::name());')
        samples = [('Option<T>', 'Some(1i32)'), ('Option<T>', 'None::<i32>'), ('Vec<T>', 'vec![1i32, 2]'), ('Result<T, E>', 'Ok::<i32, String>(1)'),
                   ('Result<T, E>', 'Err::<i32, String>("e".into())'), ('HashMap<K, V, H>', '{ let mut m = HashMap::new(); m.insert("k".to_string(), 1i32); m }'),
                   ('Range<I>', '1i32..3'), ('RangeInclusive<I>', '1i32..=3'), ('BTreeSet<T>', '[1i32].into_iter().collect::<BTreeSet<_>>()'),
                   ('Box<T>', 'Box::new(1i32)'), ('std::sync::Arc<T>', 'std::sync::Arc::new(1i32)'), ('std::rc::Rc<T>', 'std::rc::Rc::new(1i32)'),
                   ('std::cell::Cell<T>', 'std::cell::Cell::new(1i32)'), ('std::cell::RefCell<T>', 'std::cell::RefCell::new(1i32)'),
                   ('std::sync::Mutex<T>', 'std::sync::Mutex::new(1i32)'), ('std::sync::RwLock<T>', 'std::sync::RwLock::new(1i32)'),
                   ('std::marker::PhantomData<T>', 'std::marker::PhantomData::<i32>'),
                   ('std::sync::Weak<T>', '{ let a = std::sync::Arc::new(1i32); let w = std::sync::Arc::downgrade(&a); std::mem::forget(a); w }'),
                   ('std::sync::Weak<T>', 'std::sync::Weak::<i32>::new()'),
                   ('(T1, T2,)', '(1i32, 2i32)'), ('(T1,)', '(1i32,)'), ('()', '()'), ('bool', 'true'), ('char', "'c'"), ('u64', '1u64'), ('u8', '1u8'),
                   ('f64', '1.5f64'), ('String', '"s".to_string()'), ('PathBuf', 'PathBuf::from("p")'), ('Ipv4Addr', 'Ipv4Addr::new(1, 2, 3, 4)'),
                   ('NonZeroU8', 'NonZeroU8::new(1).unwrap()'), ('i128', '1i128'), ('[T; N]', '[1i32, 2, 3]'), ('[T; N]', '[0i32; 0]')]
        for key, expr in samples:
            body.append(f'    println!("J\\t{{}}\\t{{}}", r#"{key}"#, serde_json::to_string(&({expr})).unwrap());')
        body.append('}')
        with open(os.path.join(scratch, 'src', 'main.rs'), 'w') as fh:
            fh.write('\n'.join(body) + '\n')
        p = build.run(['cargo', 'run', '--offline', '-q', '--target-dir', os.path.join(build.CACHE, 'target-c12probe')], cwd=scratch)
        if p.returncode != 0:
            rep.inconclusive.append('c12 native probe failed to build/run: ' + p.stderr[-1500:])
            return
        names, jsons, inlines = {}, [], {}
        G['native_names'] = names
        G['native_inlines'] = inlines
        for ln in p.stdout.split('\n'):
            f = ln.split('\t')
            if f[0] == 'N':
                names[f[1]] = f[2]
            elif f[0] == 'I':
                inlines[f[1]] = f[2]
            elif f[0] == 'J':
                jsons.append((f[1], f[2]))
    finally:
        shutil.rmtree(scratch, ignore_errors=True)
    # (1) translator validation: engine rope instantiated at the concrete arguments == native name()
    bad = n = 0
    for idx, (self_ty, gens, meths, kind, shadow) in enumerate(G['impls']):
        if self_ty == 'Dummy' or 'name' not in meths or self_ty not in names:
            continue
        ex = Explorer()

        def h(ctx):
            rec = Rec()
            m = machine(ctx, set(gens), rec, 3)
            return m.exec_fn(G['fns'][meths['name']], [])
        try:
            r = ex.run(h)[0][1]
        except (Unsupported, Panic) as e:
            rep.inconclusive.append(f'validation: engine cannot run name() of `{self_ty}`: {e}')
            continue
        inst = ''.join(chr(c) if isinstance(c, int) else LEAF[CONCRETE.get(c.label.split('.')[0], 'i32') if not re.fullmatch(r'T\d+', c.label.split('.')[0]) else 'i32']
                       for c in r.cs)
        n += 1
        if inst != names[self_ty]:
            bad += 1
            if bad <= 3:
                rep.inconclusive.append(f'translator validation mismatch: `{self_ty}` name(): engine {inst!r} native {names[self_ty]!r} (impl pairing?)')
    rep.validated('built-in impl name() at a concrete instantiation vs native', n, bad)
    # (2) the oracle table against serde_json
    import json as _json
    bad = 0
    for key, js in jsons:
        shape = SHAPES.get(key) or ('[{T}, {T}, {T}]' if js.startswith('[1') else 'never[]' if key == '[T; N]' else None)
        val = _json.loads(js)
        if key == '[T; N]':
            ok = isinstance(val, list)
        else:
            ok = inhabits(val, shape, key)
        if not ok:
            bad += 1
            rep.inconclusive.append(f'oracle table entry `{key}` = `{shape}` does not accept what serde_json emits: {js}')
    rep.validated('serde shape table vs serde_json::to_string on sample values', len(jsons), bad)


def inhabits(val, shape, key):
    """does the JSON value inhabit the table's TypeScript type (holes read as the concrete instantiation)?"""
    leaf = lambda h: LEAF[CONCRETE.get(h, 'i32') if not re.fullmatch(r'T\d+', h) else 'i32']
    s = re.sub(r'\{([A-Z]\w*)\}', lambda m: leaf(m.group(1)), shape)

    def chk(v, t):
        t = t.strip()
        alts = split_union(t)
        if len(alts) > 1:
            return any(chk(v, a) for a in alts)
        if t == 'number':
            return isinstance(v, (int, float)) and not isinstance(v, bool)
        if t == 'bigint':
            return isinstance(v, int) and not isinstance(v, bool)
        if t == 'string':
            return isinstance(v, str)
        if t == 'boolean':
            return isinstance(v, bool)
        if t == 'null':
            return v is None
        m = re.fullmatch(r'Array<(.*)>', t)
        if m:
            return isinstance(v, list) and all(chk(x, m.group(1)) for x in v)
        if t.startswith('[') and t.endswith(']'):
            parts = mirparse.split_top(t[1:-1])
            return isinstance(v, list) and len(v) == len(parts) and all(chk(x, p) for x, p in zip(v, parts))
        m = re.fullmatch(r'\{ \[key in (.*)\]\?: (.*) \}', t)
        if m:
            return isinstance(v, dict) and all(chk(k, m.group(1)) and chk(x, m.group(2)) for k, x in v.items())
        m = re.fullmatch(r'\{(.*)\}', t)
        if m:
            fields = [f for f in mirparse.split_top(m.group(1)) if f.strip()]
            names_ = {}
            for f in fields:
                k, ty = f.split(':', 1)
                names_[k.strip()] = ty
            return isinstance(v, dict) and set(v) == set(names_) and all(chk(v[k], ty) for k, ty in names_.items())
        return False
    return chk(val, s)


def split_union(t):
    out, depth, cur = [], 0, []
    i = 0
    while i < len(t):
        c = t[i]
        if c in '<[{(':
            depth += 1
        elif c in '>]})':
            depth -= 1
        if depth == 0 and t[i:i + 3] == ' | ':
            out.append(''.join(cur))
            cur = []
            i += 3
            continue
        cur.append(c)
        i += 1
    out.append(''.join(cur))
    return out


def main():
    rep = report.Report('C12', 'bounded symbolic execution of rustc MIR: every built-in `impl TS` run with abstract type parameters (their TS methods '
                               'are uninterpreted holes; the array length is a solver variable) and compared with serde\'s JSON shape over the same holes')
    setup()
    quick = TIER == 'quick'
    G['time_budget'] = 1500 if quick else 7000
    impls = G['impls']
    rep.functions = [{'impl': t[0], 'kind': t[3], 'methods': sorted(t[2])} for t in impls]
    rep.configs = ['ts-rs: default features']
    native_names(rep)
    results = par.pmap(explore, list(range(len(impls))))

    def native_disagrees(v):
        """the natively compiled name() of a concrete instantiation differs from the table instantiated the same way"""
        is_arr = v['impl'].replace(' ', '') == '[T;N]'
        key_ = v['impl'] + (f'@{v["N"]}' if is_arr and v.get('N') is not None else '')
        if v['method'] == 'inline' and key_ in G.get('native_inlines', {}):
            # inline(): instantiate at the derived struct Probe, whose inline form `{ q: number, }` differs from its name
            nat = G['native_inlines'][key_]
            gens_ = [t for t in impls if t[0] == v['impl']][0][1]
            shape = SHAPES.get(v['impl']) or ('[' + ', '.join('{' + g + '}' for g in gens_) + ']')
            if is_arr:
                n_ = v.get('N') if v.get('N') is not None else 3
                shape = 'Array<{T}>' if n_ > G['limit'] else '[' + ', '.join(['{T}'] * n_) + ']'
            want = re.sub(r'\{([A-Z]\w*)\}', '{ q: number, }', shape)
            v['native_inline_at_Probe'], v['table_instantiated'] = nat, want
            return nat != want
        nat = G.get('native_names', {}).get(key_)
        if nat is None or v['method'] not in ('name', 'inline'):
            return None
        gens_ = [t for t in impls if t[0] == v['impl']][0][1]
        shape = SHAPES.get(v['impl']) or ('[' + ', '.join('{' + g + '}' for g in gens_) + ']')
        if is_arr:
            n_ = v.get('N') if v.get('N') is not None else 3
            shape = 'Array<{T}>' if n_ > G['limit'] else '[' + ', '.join(['{T}'] * n_) + ']'
        want = re.sub(r'\{([A-Z]\w*)\}', lambda a: LEAF[CONCRETE.get(a.group(1), 'i32') if not re.fullmatch(r'T\d+', a.group(1)) else 'i32'], shape)
        v['native_name'] = nat
        v['table_instantiated'] = want
        return nat != want
    for r in results:
        for v in r.pop('violations', []):
            d = native_disagrees(v)
            if d is False:
                rep.inconclusive.append(f'engine finding does not reproduce natively: {v}')
            else:
                rep.violations.append({'what': f'impl TS for {v["impl"]}: {v["why"]}', 'witness': v, 'key': f'{v["impl"]}/{v["method"]}'})
        for fid, w in r.pop('known_hits', {}).items():
            if native_disagrees(w) is not False:
                rep.known_hits.setdefault(fid, w)
        rep.absorb(r)
    try:
        compose_part(rep)
    except Unsupported as e:
        rep.inconclusive.append(f'compositions: {e}')
    try:
        feature_part(rep)
    except (Unsupported, build.BuildError) as e:
        rep.inconclusive.append(f'feature-gated impls: {e}')
    rep.bounds = {'impls': len(impls), 'type_arguments': 'abstract (universal): one execution per impl and method covers every instantiation; composition '
                  'to any depth follows from parametricity', 'array_length_N': f'0..={G["limit"] + 2} (solver variable, case split)', 'tuple_arity': '1..=10'}
    rep.outside += ['third-party types without a serde representation (tokio locks, chrono::Duration / Date<Tz> / time-zone markers): only '
                    'their dependency reporting could be checked and is not', 'the `format` feature', 'values: the table speaks about shapes; '
                    'number ranges (e.g. u64 beyond 2^53) are not modelled']
    rep.assumptions += ['the serde shape table (props/c12.py SHAPES) is the specification; it is checked against serde_json on sample values at every run',
                        'macro-made impls are paired with the macro invocations by order of appearance (checked by the native name() comparison)']
    # native confirmation of violations: concrete instantiation disagrees with the table instantiated the same way
    return rep.finish()


if __name__ == '__main__':
    run_main(main)
