"""A small parser and normaliser for the TypeScript *type expressions* ts-rs emits, working on ropes (lists of code points and
uninterpreted holes) as produced by the symbolic executor.

Used as a semantic oracle (C14: two presentations denote the same type; C04: every property key is valid at its position).
The parser is strict where the properties are: a property key must be an IdentifierName, a numeric literal or a CLOSED string
literal; `&` binds tighter than `|`; parentheses group.  The normal form
  * identifies the presentations of an abstract parameter (`T.name`, `T.inline`, `T.inline_flattened` -> the parameter T),
  * expands references to corpus types by their own inline form (so "by name" and "inlined" meet),
  * flattens nested unions / intersections, distributes `&` over `|` (DNF), merges object literals that are intersected
    (disjoint keys), and orders members,
so equal normal forms mean equal types under the usual structural reading, and different normal forms are reported together
with both texts.  Not handled (ParseError): function types, conditional types, template literal types, index signatures other than
the mapped form `[key in K]?: V` that ts-rs emits for maps."""
import re

from mirsym.interp import Hole


class ParseError(Exception):
    pass


ID_START = re.compile(r'[A-Za-z_$ª-￿]')
ID_CONT = re.compile(r'[A-Za-z0-9_$ª-￿]')


def tokenize(rope):
    toks, i, n = [], 0, len(rope)
    while i < n:
        c = rope[i]
        if isinstance(c, Hole):
            toks.append(('atom', c.label))
            i += 1
            continue
        if not isinstance(c, int):
            raise ParseError('symbolic character in a type text')
        ch = chr(c)
        if ch in ' \n\t\r':
            i += 1
            continue
        if ch == '/' and i + 1 < n and rope[i + 1] == 42:          # comment block: skipped (docs are C15's subject)
            j = i + 2
            while j + 1 < n and not (rope[j] == 42 and rope[j + 1] == 47):
                j += 1
            if j + 1 >= n:
                raise ParseError('unterminated comment')
            i = j + 2
            continue
        if ch == '"' or ch == "'":
            j, out = i + 1, []
            while True:
                if j >= n:
                    raise ParseError('unterminated string literal')
                d = rope[j]
                if isinstance(d, Hole):
                    out.append(d)
                    j += 1
                    continue
                if d == c:
                    break
                if d == 10:
                    raise ParseError('line break inside a string literal')
                if d == 92:
                    if j + 1 >= n or isinstance(rope[j + 1], Hole):
                        raise ParseError('dangling escape in a string literal')
                    e = chr(rope[j + 1])
                    out.append({'n': '\n', 'r': '\r', 't': '\t', '0': '\0'}.get(e, e))
                    j += 2
                    continue
                out.append(chr(d))
                j += 1
            toks.append(('str', tuple(x if isinstance(x, str) else ('hole', x.label) for x in out)))
            i = j + 1
            continue
        if ch.isdigit():
            j = i
            while j < n and isinstance(rope[j], int) and (chr(rope[j]).isdigit() or chr(rope[j]) == '.'):
                j += 1
            if j < n and isinstance(rope[j], int) and ID_CONT.match(chr(rope[j])):
                raise ParseError('identifier starting with a digit: ' + ''.join(chr(x) for x in rope[i:j + 1] if isinstance(x, int)))
            toks.append(('num', ''.join(chr(x) for x in rope[i:j])))
            i = j
            continue
        if ID_START.match(ch):
            j = i
            while j < n and isinstance(rope[j], int) and ID_CONT.match(chr(rope[j])):
                j += 1
            toks.append(('id', ''.join(chr(x) for x in rope[i:j])))
            i = j
            continue
        if ch in '{}()[]<>|&,:;?=.-':
            toks.append(('p', ch))
            i += 1
            continue
        raise ParseError(f'unexpected character {ch!r}')
    return toks


class P:
    def __init__(self, toks):
        self.t, self.i = toks, 0

    def peek(self, k=0):
        return self.t[self.i + k] if self.i + k < len(self.t) else ('eof', '')

    def take(self, kind=None, val=None):
        tk = self.peek()
        if (kind and tk[0] != kind) or (val is not None and tk[1] != val):
            raise ParseError(f'expected {val or kind}, found {tk}')
        self.i += 1
        return tk

    def at(self, val):
        return self.peek() == ('p', val)

    def type(self):
        if self.at('|'):
            self.take()
        parts = [self.inter()]
        while self.at('|'):
            self.take()
            parts.append(self.inter())
        return parts[0] if len(parts) == 1 else ('union', parts)

    def inter(self):
        parts = [self.postfix()]
        while self.at('&'):
            self.take()
            parts.append(self.postfix())
        return parts[0] if len(parts) == 1 else ('inter', parts)

    def postfix(self):
        t = self.primary()
        while self.at('[') and self.peek(1) == ('p', ']'):
            self.take()
            self.take()
            t = ('ref', 'Array', [t])
        return t

    def primary(self):
        k, v = self.peek()
        if k == 'atom':
            self.take()
            return ('atom', v)
        if k == 'str':
            self.take()
            return ('str', v)
        if k == 'num':
            self.take()
            return ('num', v)
        if k == 'p' and v == '-' and self.peek(1)[0] == 'num':
            self.take()
            return ('num', '-' + self.take()[1])
        if k == 'p' and v == '(':
            self.take()
            t = self.type()
            self.take('p', ')')
            return t
        if k == 'p' and v == '[':
            self.take()
            items = []
            while not self.at(']'):
                items.append(self.type())
                if self.at(','):
                    self.take()
                elif not self.at(']'):
                    raise ParseError(f'expected , or ] in a tuple, found {self.peek()}')
            self.take()
            return ('tuple', items)
        if k == 'p' and v == '{':
            return self.obj()
        if k == 'id':
            self.take()
            name = v
            while self.at('.') and self.peek(1)[0] == 'id':
                self.take()
                name += '.' + self.take()[1]
            args = []
            if self.at('<'):
                self.take()
                while not self.at('>'):
                    args.append(self.type())
                    if self.at(','):
                        self.take()
                    elif not self.at('>'):
                        raise ParseError(f'expected , or > in type arguments, found {self.peek()}')
                self.take()
            return ('ref', name, args)
        raise ParseError(f'unexpected token {self.peek()}')

    def obj(self):
        self.take('p', '{')
        members = []
        while not self.at('}'):
            if self.at('['):
                self.take()
                kv = self.take('id')[1]
                self.take('id', 'in')
                kt = self.type()
                self.take('p', ']')
                opt = False
                if self.at('?'):
                    self.take()
                    opt = True
                self.take('p', ':')
                members.append(('mapped', kt, opt, self.type()))
            else:
                k, v = self.peek()
                if k == 'id':
                    key = ('id', v)
                elif k == 'str':
                    key = ('str', v)
                elif k == 'num':
                    key = ('num', v)
                elif k == 'atom':
                    raise ParseError(f'an uninterpreted text in property-key position: {v}')
                else:
                    raise ParseError(f'invalid property key {self.peek()}')
                self.take()
                opt = False
                if self.at('?'):
                    self.take()
                    opt = True
                self.take('p', ':')
                members.append(('prop', key, opt, self.type()))
            if self.at(',') or self.at(';'):
                self.take()
            elif not self.at('}'):
                raise ParseError(f'expected , or }} after a property, found {self.peek()}')
        self.take()
        return ('obj', members)


def parse(rope):
    p = P(tokenize(list(rope)))
    t = p.type()
    if p.peek()[0] != 'eof':
        raise ParseError(f'trailing tokens from {p.peek()}')
    return t


def parse_text(text):
    """expected-side helper: TypeScript text in which `$T` stands for the abstract parameter T"""
    rope = []
    for part in re.split(r'(\$[A-Z]\w*)', text):
        if part.startswith('$'):
            rope.append(Hole(part[1:] + '.name'))
        else:
            rope.extend(ord(c) for c in part)
    return parse(rope)


# ------------------------------------------------------------------------------------------ normal form
def key_name(key):
    """the property name a key denotes (identifier, string or number keys that spell the same name are the same property)"""
    if isinstance(key, str):
        return key          # already normalised
    if key[0] == 'str':
        return ''.join(x if isinstance(x, str) else '{' + x[1] + '}' for x in key[1])
    return key[1]


def subst(t, env):
    k = t[0]
    if k == 'atom':
        lab = t[1]
        par, _, form = lab.partition('.')
        if par in env:
            return env[par]
        return ('param', par) if form in ('name', 'inline', 'inline_flattened') else t
    if k in ('union', 'inter', 'tuple'):
        return (k, [subst(x, env) for x in t[1]])
    if k == 'ref':
        return ('ref', t[1], [subst(x, env) for x in t[2]])
    if k == 'obj':
        out = []
        for m in t[1]:
            if m[0] == 'prop':
                out.append(('prop', m[1], m[2], subst(m[3], env)))
            else:
                out.append(('mapped', subst(m[1], env), m[2], subst(m[3], env)))
        return ('obj', out)
    return t


def normalize(t, expand=None, depth=0):
    """expand: fn(name, [normalised args]) -> AST of the referenced type's inline form over atoms `P.name`, plus its parameter list;
    returns None for names it does not know (TypeScript built-ins, opaque references)"""
    if depth > 12:
        raise ParseError('reference expansion does not terminate')
    k = t[0]
    if k == 'atom':
        return subst(t, {})
    if k in ('str', 'num', 'param'):
        return t
    if k == 'tuple':
        return ('tuple', tuple(normalize(x, expand, depth) for x in t[1]))
    if k == 'ref':
        args = [normalize(x, expand, depth) for x in t[2]]
        if expand:
            r = expand(t[1], args)
            if r is not None:
                body, params = r
                return normalize(subst(body, dict(zip(params, args))), expand, depth + 1)
        return ('ref', t[1], tuple(args))
    if k == 'obj':
        ms = []
        for m in t[1]:
            if m[0] == 'prop':
                ms.append(('prop', key_name(m[1]), m[2], normalize(m[3], expand, depth)))
            else:
                ms.append(('mapped', normalize(m[1], expand, depth), m[2], normalize(m[3], expand, depth)))
        return ('obj', tuple(sorted(ms, key=repr)))
    if k == 'union':
        out = []
        for x in t[1]:
            n = normalize(x, expand, depth)
            out.extend(n[1] if n[0] == 'union' else [n])
        uniq = sorted({repr(x): x for x in out}.values(), key=repr)
        return uniq[0] if len(uniq) == 1 else ('union', tuple(uniq))
    if k == 'inter':
        parts = []
        for x in t[1]:
            n = normalize(x, expand, depth)
            parts.extend(n[1] if n[0] == 'inter' else [n])
        # distribute over unions (DNF)
        for i, x in enumerate(parts):
            if x[0] == 'union':
                rest = parts[:i] + parts[i + 1:]
                return normalize(('union', [('inter', [alt] + rest) for alt in x[1]]), None, depth)
        objs = [x for x in parts if x[0] == 'obj']
        others = [x for x in parts if x[0] != 'obj']
        if len(objs) > 1:
            names = [m[1] for o_ in objs for m in o_[1] if m[0] == 'prop']
            if len(names) == len(set(names)):
                merged = tuple(sorted((m for o_ in objs for m in o_[1]), key=repr))
                objs = [('obj', merged)]
        allp = sorted({repr(x): x for x in objs + others}.values(), key=repr)
        return allp[0] if len(allp) == 1 else ('inter', tuple(allp))
    raise ParseError(f'cannot normalise {t!r}')


def show(t):
    k = t[0]
    if k == 'param':
        return t[1]
    if k == 'atom':
        return '{' + t[1] + '}'
    if k == 'str':
        return '"' + ''.join(x if isinstance(x, str) else '{' + x[1] + '}' for x in t[1]) + '"'
    if k == 'num':
        return t[1]
    if k == 'ref':
        return t[1] + ('<' + ', '.join(show(x) for x in t[2]) + '>' if t[2] else '')
    if k == 'tuple':
        return '[' + ', '.join(show(x) for x in t[1]) + ']'
    if k == 'union':
        return ' | '.join('(' + show(x) + ')' if x[0] in ('union', 'inter') else show(x) for x in t[1])
    if k == 'inter':
        return ' & '.join('(' + show(x) + ')' if x[0] in ('union', 'inter') else show(x) for x in t[1])
    if k == 'obj':
        ms = []
        for m in t[1]:
            if m[0] == 'prop':
                ms.append(f'{m[1]!r}{"?" if m[2] else ""}: {show(m[3])}')
            else:
                ms.append(f'[key in {show(m[1])}]{"?" if m[2] else ""}: {show(m[3])}')
        return '{ ' + ', '.join(ms) + ' }'
    return repr(t)
