"""C15 -- doc comments are carried over, contained, and never alter the type.

Executed symbolically (real MIR): parse_docs with its three closures and escape_doc on a list of lazily created
syn::Attribute values (symbolic: is it name-value? is its path `doc`? is its value a string literal? and the text itself
as symbolic chars); FieldAttr::merge's docs rule on symbolic records. The merge-into-shared-file side is C05's subject
(doc-bearing declarations are part of its inputs); generate_decl's layout is C04's.
"""
from .common import *
from . import c16
from mirsym.models import Opaque
from mirsym.models3 import OK, ERR

ALPHA = '*/\n a"\\'
G = {}


def setup():
    c16.setup()
    G.update(c16.G)
    G['parse_docs'] = one_fn(G['fns'], 'parse_docs')
    G['field_merge'] = one_fn(G['fns'], '>::merge', 'attr/field.rs')


def is_c(m, c, k):
    if not is_sym(c):
        return c == k
    return m.ctx.decide(c == z3.BitVecVal(k, CH))


def ceq(a, b):
    if is_sym(a) or is_sym(b):
        return bv(a, CH) == bv(b, CH)
    return z3.BoolVal(a == b)


def contains_in_order(raw, needles):
    """z3 condition: every needle occurs in `raw`, in order and without overlap, where a backslash that sits between `*` and `/`
    (the escape the fix introduces for `*/`) may be skipped while matching, and so may a comment gutter ` *` that the generator puts
    at the start of a continuation line (directly after a newline of the text): both are presentation, not loss of text"""
    n = len(needles)

    def isesc(p):
        if p <= 0 or p + 1 >= len(raw):
            return z3.BoolVal(False)
        return z3.And(ceq(raw[p - 1], 42), ceq(raw[p], 92), ceq(raw[p + 1], 47))
    memo = {}

    def rest(j, p):            # needles j.. occur at or after raw position p
        if j == n:
            return z3.BoolVal(True)
        key = ('g', j, p)
        if key not in memo:
            memo[key] = z3.Or([match(j, q, 0) for q in range(p, len(raw) + 1)])
        return memo[key]

    def match(i, p, k):        # needle i from char k matches at raw position p, the remaining needles follow
        if k == len(needles[i]):
            return rest(i + 1, p)
        if p >= len(raw):
            return z3.BoolVal(False)
        key = (i, p, k)
        if key not in memo:
            alts = [z3.And(ceq(raw[p], needles[i][k]), match(i, p + 1, k + 1)), z3.And(isesc(p), match(i, p + 1, k))]
            if k > 0 and p + 1 < len(raw):
                alts.append(z3.And(ceq(needles[i][k - 1], 10), ceq(raw[p - 1], 10) if p > 0 else z3.BoolVal(False),
                                   ceq(raw[p], 32), ceq(raw[p + 1], 42), match(i, p + 2, k)))
            memo[key] = z3.Or(alts)
        return memo[key]
    return rest(0, 0)


def explore(item):
    lens = item
    n = len(lens)
    ex = Explorer(time_budget=G.get('time_budget'))
    texts = [[z3.BitVec(f't{i}_{j}', CH) for j in range(L)] for i, L in enumerate(lens)]
    for t in texts:
        for c in t:
            ex.solver.add(z3.Or([c == z3.BitVecVal(ord(x), CH) for x in ALPHA]))
    nv = [z3.Bool(f'attr{i}.is_name_value') for i in range(n)]
    isdoc = [z3.Bool(f'attr{i}.is_doc') for i in range(n)]
    out = {'violations': [], 'samples': [], 'obligations': 0, 'discharged': 0, 'models': set(), 'inconclusive': []}

    def harness(ctx):
        m = c16.machine(ctx)
        mnvs = [Lazy(f'mnv{i}') for i in range(n)]

        def req_nv(mm, callee, args):
            meta = models2.deref_all(mm, args[0])
            i = int(re.match(r'attr(\d+)', meta.label).group(1))
            return Enum(z3.If(nv[i], z3.BitVecVal(0, 64), z3.BitVecVal(1, 64)), [ValRef(mnvs[i])], 'Result?')

        def is_ident(mm, callee, args):
            path = models2.deref_all(mm, args[0])
            i = int(re.match(r'mnv(\d+)', path.label).group(1))
            what = show(models2.deref_all(mm, args[1]))
            return isdoc[i] if what == 'doc' else False

        def lit_value(mm, callee, args):
            lit = models2.deref_all(mm, args[0])
            i = int(re.match(r'mnv(\d+)', lit.label).group(1))
            return RStr(list(texts[i]))
        m.stubs += [(re.compile(r'^Meta::require_name_value$'), req_nv), (re.compile(r'^syn::Path::is_ident::<str>$'), is_ident),
                    (re.compile(r'^LitStr::value$'), lit_value),
                    (re.compile(r'^<MetaNameValue as Spanned>::span$'), lambda mm, c, a: ('span',))]
        attrs = models2.RVec([Lazy(f'attr{i}') for i in range(n)])
        try:
            r = m.exec_fn(G['fns'][G['parse_docs']], [ValRef(attrs)])
        except Panic as e:
            out['models'].update(m.calls)
            return ('panic', str(e)), None, None
        out['models'].update(m.calls)
        # which attributes are literal-string docs on this path (read back from the lazily created discriminants)
        lit = []
        for i in range(n):
            e = mnvs[i].parts.get(2)
            l = None
            if isinstance(e, Lazy) and e.disc is not None:
                inner = e.parts.get(0)
                l2 = inner.parts.get(1) if isinstance(inner, Lazy) else None
                l = (e.disc, l2.disc if isinstance(l2, Lazy) and l2.disc is not None else None)
            lit.append(l)
        if c16.disc_conc(r) != 0:
            return ('err', ''), lit, None
        res = r.fields[0].cs
        return ('ok', res), lit, None
    try:
        for pc, ((k, res), lit, clean) in ex.run(harness):
            out['obligations'] += 1
            if k == 'panic':
                if ex.check(pc) == z3.sat:
                    out['violations'].append({'what': 'parse_docs panics: ' + res, 'texts': [show(t, ex.model()) for t in texts]})
                continue
            # an attribute is a doc text on this path iff the code got as far as reading its literal
            active = [i for i in range(n) if lit[i] is not None and lit[i][1] is not None]
            considered = [i for i in range(n) if lit[i] is not None]
            if k == 'err':
                # legitimate only when some doc attribute has a non-literal value; such an attribute was looked at (considered)
                if not considered:
                    if ex.check(pc) == z3.sat:
                        out['violations'].append({'what': 'parse_docs fails although no doc attribute was inspected', 'texts': []})
                    continue
                out['discharged'] += 1
                continue
            conds = []
            if not active:
                conds.append(z3.BoolVal(len(res) != 0))
            else:
                head, tail = '/**', '*/\n'
                if len(res) < 6:
                    conds.append(z3.BoolVal(True))
                else:
                    conds.append(z3.Not(eq_const(res[:3], head)))
                    conds.append(z3.Not(eq_const(res[-3:], tail)))
                    body = res[:-3]
                    # (b) no `*/` before the final one -- including the one formed with the closing `*`... the closing `*/` itself
                    for j in range(len(body) - 1):
                        a, b = body[j], body[j + 1]
                        conds.append(z3.And(bv(a, CH) == 42, bv(b, CH) == 47))
                    # the comment opener must not be closed immediately: "/**/"
                    if len(res) > 3:
                        conds.append(bv(res[3], CH) == 47)
                    # (c) every text, in order, is contained (modulo the `*\/` escape)
                    conds.append(z3.Not(contains_in_order(list(body), [texts[i] for i in active])))
            bad = z3.Or(conds)
            if ex.check(pc + [bad]) == z3.sat:
                mdl = ex.model()
                out['violations'].append({'what': 'doc block malformed or text lost', 'texts': [show(texts[i], mdl) for i in active],
                                          'n_attrs': n, 'engine_result': show(res, mdl)})
            else:
                out['discharged'] += 1
                if not out['samples'] and active and ex.check(pc) == z3.sat:
                    mdl = ex.model()
                    out['samples'].append({'texts': [show(texts[i], mdl) for i in active], 'block': show(res, mdl)})
    except Unsupported as e:
        out['inconclusive'].append(f'{item}: {e}')
    out.update(paths=ex.paths, nontrivial=ex.nontrivial, queries=ex.queries, solver_s=ex.solver_s)
    out['models'] = sorted(out['models'])
    return out


def block_ok(block, texts):
    """the property on a concrete native result (same oracle, evaluated concretely)"""
    if not texts:
        return block == ''
    if not (block.startswith('/**') and block.endswith('*/\n')) or len(block) < 6:
        return False
    if '*/' in block[:-3] or block[:4] == '/**/':
        return False
    cond = contains_in_order([ord(c) for c in block[:-3]], [[ord(c) for c in t] for t in texts])
    return z3.is_true(z3.simplify(cond))


def concrete(texts):
    ex = Explorer()

    def h(ctx):
        m = c16.machine(ctx)
        mnvs = [Lazy(f'mnv{i}') for i in range(len(texts))]
        m.stubs += [(re.compile(r'^Meta::require_name_value$'),
                     lambda mm, c, a: OK(ValRef(mnvs[int(re.match(r'attr(\d+)', models2.deref_all(mm, a[0]).label).group(1))]))),
                    (re.compile(r'^syn::Path::is_ident::<str>$'), lambda mm, c, a: True),
                    (re.compile(r'^LitStr::value$'),
                     lambda mm, c, a: S(texts[int(re.match(r'mnv(\d+)', models2.deref_all(mm, a[0]).label).group(1))]))]
        r = m.exec_fn(G['fns'][G['parse_docs']], [ValRef(models2.RVec([Lazy(f'attr{i}') for i in range(len(texts))]))])
        return r
    # the literal-string branch is forced by constraining the lazily created discriminants through the path search:
    res = ex.run(h)
    oks = [r for _, r in res if c16.disc_conc(r) == 0]
    if len(oks) != 1:
        raise Unsupported(f'concrete parse_docs: {len(oks)} Ok paths')
    return show(oks[0].fields[0])


def validate(rep, count):
    rnd = random.Random(SEED)
    cases = [[' a doc'], [' line one', ' line two'], ['a\nb'], [' glob **/*.rs'], ['/x'], [''], ['*/'], ['*', '/'], [' a', '', ' b'], ['/\n']]
    for _ in range(count):
        cases.append([''.join(rnd.choice(ALPHA) for _ in range(rnd.randint(0, 5))) for _ in range(rnd.randint(1, 3))])
    nat = G['native'].batch([['docs'] + c for c in cases])
    bad = 0
    for c, n in zip(cases, nat):
        try:
            mine = concrete(c)
        except Unsupported as e:
            rep.inconclusive.append(f'validation: engine cannot run parse_docs on {c!r}: {e}')
            return
        if n[0] != 'ok' or n[1] != mine:
            bad += 1
            if bad <= 3:
                rep.inconclusive.append(f'translator validation mismatch parse_docs({c!r}): engine={mine!r} native={n}')
    rep.validated('parse_docs vs native (through the derive pipeline)', len(cases), bad)


def merge_part(rep):
    """FieldAttr::merge: docs are concatenated, and dropped for flattened fields"""
    ex = Explorer()
    a, Va = c16.sym_record('FieldAttr', 'a')
    b, Vb = c16.sym_record('FieldAttr', 'b')
    idx = G['structs']['FieldAttr'].index('docs')

    def h(ctx):
        m = c16.machine(ctx)
        try:
            r = m.exec_fn(G['fns'][G['field_merge']], [a, b])
        except Panic as e:
            return ('panic', str(e))
        return ('ok', r.fields[idx])
    ob = di = 0
    for pc, (k, d) in ex.run(h):
        ob += 1
        if k == 'panic':
            rep.violations.append({'what': 'FieldAttr::merge panics: ' + d, 'witness': {}, 'key': 'merge/panic'})
            continue
        flat = z3.Or(Va['flatten'], Vb['flatten'])
        labels = [getattr(c, 'label', None) for c in d.cs]
        want_full = labels == ['a.docs', 'b.docs']
        want_empty = labels == []
        bad = z3.Or(z3.And(flat, z3.BoolVal(not want_empty)), z3.And(z3.Not(flat), z3.BoolVal(not want_full)))
        if ex.check(pc + [bad]) == z3.sat:
            rep.violations.append({'what': f'FieldAttr::merge docs rule broken: result {labels}', 'witness': c16.model_dict(ex.model()),
                                   'key': 'merge/docs'})
        else:
            di += 1
    rep.absorb(dict(paths=ex.paths, nontrivial=ex.nontrivial, queries=ex.queries, solver_s=ex.solver_s, obligations=ob, discharged=di))
    rep.part('FieldAttr::merge docs rule', paths=ex.paths)


def docs_do_not_alter_type(rep):
    """Tier B: the same definition with and without doc comments (corpus D1 / D2): inline() differs exactly by the field's comment
    block, DOCS carries the container's text, the declared type is otherwise identical -- for all type arguments"""
    from . import tyres
    from mirsym.interp import Hole
    tyres.setup()
    TG = tyres.G
    ex = Explorer()

    def h(ctx):
        r = tyres.Resolver(['T'])
        m = tyres.machine(ctx, r)
        out = {}
        for ty in ('D1<T>', 'D2<T>'):
            for meth in ('inline', 'decl'):
                out[(ty, meth)] = list(m.call(f'<{ty} as TS>::{meth}', []).cs)
        out['docs1'] = m.operand(None, ('const', ('path', '<D1<T> as TS>::DOCS')))
        out['docs2'] = m.operand(None, ('const', ('path', '<D2<T> as TS>::DOCS')))
        return out
    try:
        res = ex.run(h)
    except (Unsupported, Panic) as e:
        rep.inconclusive.append(f'docs_do_not_alter_type: {e}')
        return
    for pc, o_ in res:
        rep.obligations += 1
        strip = lambda rope: re.sub(r'\n/\*\*.*?\*/\n', '', tyres.show_rope(rope), flags=re.S)
        a, b = strip(o_[('D1<T>', 'inline')]), tyres.show_rope(o_[('D2<T>', 'inline')])
        da, db = strip(o_[('D1<T>', 'decl')]).replace('D1', 'D'), tyres.show_rope(o_[('D2<T>', 'decl')]).replace('D2', 'D')
        has_block = '/**' in tyres.show_rope(o_[('D1<T>', 'inline')])
        if a != b or da != db or not has_block:
            rep.violations.append({'what': f'doc comments alter the declared type or are lost: with docs {tyres.show_rope(o_[("D1<T>", "inline")])!r}, '
                                           f'without {b!r}', 'witness': {}, 'key': 'docs/type'})
        else:
            rep.discharged += 1
    rep.absorb(dict(paths=ex.paths, nontrivial=ex.paths, queries=ex.queries, solver_s=ex.solver_s))
    rep.part('docs do not alter the type (tier B corpus D1/D2)', paths=ex.paths)
    doc_twins(rep)


# documented item, its doc-less twin, and for every documented NAMED field the key its comment block must sit in front of
DOC_TWINS = [('DD1', 'DN1', [('da {0} {{b}}', '"a-b"'), ('db', 'b'), ('dc', 'c'), ('dd', 'd'), ('df', 'type')]),
             ('DD2', 'DN2', [('fa {1}', 'x'), ('fb', '"y-y"')]), ('DD3', 'DN3', [('fa', 'x')]), ('DD4', 'DN4', []), ('DD5', 'DN5', [('da', 'a')]),
             ('DD6', 'DN6', []), ('DD7', 'DN7', []), ('DD8', 'DN8', [])]


def doc_twins(rep):
    """Tier B: doc comments in every position the derive accepts them (container, fields with rename / type / optional / inline /
    flatten / raw identifiers, variants, fields of struct variants, tuple fields) next to the doc-less twin: the two bindings are the
    same TypeScript type (parsed and normalised, comments skipped; and textually equal once the blocks are removed), and each
    named field's text sits in one block immediately in front of its property."""
    from . import tyres
    from . import tsparse as TP
    TG = tyres.G
    for dd, dn, fields in DOC_TWINS:
        if dd not in TG['corpus'] or dn not in TG['corpus']:
            rep.inconclusive.append(f'doc twins: corpus item {dd}/{dn} missing')
            continue
        ex = Explorer()

        def h(ctx):
            r = tyres.Resolver(['T'])
            m = tyres.machine(ctx, r)
            out_ = {(ty, meth): list(m.call(f'<{ty}<T> as TS>::{meth}', []).cs) for ty in (dd, dn) for meth in ('inline', 'decl')}
            # the container's documentation: `const DOCS` of the derive-generated impl (absent = the trait's default None)
            for ty in (dd, dn):
                key = f"const <impl at src/lib.rs:{TG['corpus'][ty]['line']}:"
                ck = [k for k in m.fns if k.startswith(key) and k.endswith('>::DOCS')]
                if ck:
                    v = m.exec_fn(m.fns[ck[0]], [])
                    out_[(ty, 'DOCS')] = tyres.show_rope(models2.deref_all(m, v.fields[0]).cs) if getattr(v, 'disc', 0) == 1 else None
                else:
                    out_[(ty, 'DOCS')] = None
            return out_
        try:
            res = ex.run(h)
        except (Unsupported, Panic) as e:
            rep.inconclusive.append(f'doc twins {dd}: {e}')
            continue
        rep.absorb(dict(paths=ex.paths, nontrivial=ex.paths, queries=ex.queries, solver_s=ex.solver_s))
        for pc, o_ in res:
            rep.obligations += 1
            with_docs, without = tyres.show_rope(o_[(dd, 'inline')]), tyres.show_rope(o_[(dn, 'inline')])
            why = None
            try:
                if TP.show(TP.normalize(TP.parse(o_[(dd, 'inline')]))) != TP.show(TP.normalize(TP.parse(o_[(dn, 'inline')]))):
                    why = 'the documented binding denotes a different type than its doc-less twin'
            except TP.ParseError as e:
                why = f'the documented binding is not well-formed TypeScript: {e}'
            if why is None and re.sub(r'\n/\*\*.*?\*/\n', '', with_docs, flags=re.S) != without:
                why = 'removing the comment blocks does not give the doc-less twin\'s text'
            if why is None and re.sub(r'\n/\*\*.*?\*/\n', '', tyres.show_rope(o_[(dd, 'decl')]), flags=re.S).replace(dd, 'X') != \
                    tyres.show_rope(o_[(dn, 'decl')]).replace(dn, 'X'):
                why = 'decl() of the documented item differs from its twin beyond the comment blocks'
            if why is None and o_[(dn, 'DOCS')] is not None:
                why = f'a type without documentation reports DOCS = {o_[(dn, "DOCS")]!r}'
            if why is None and not re.fullmatch(r'/\*\*\n \*\s?cdoc\n \*/\n', o_[(dd, 'DOCS')] or ''):
                why = f'the container documentation `cdoc` is not reported as one comment block: DOCS = {o_[(dd, "DOCS")]!r}'
            for mark, key in fields:
                if why is None and not re.search(r'\n/\*\*\n \*\s?' + re.escape(mark) + r'\n \*/\n' + re.escape(key) + r'\??: ', with_docs):
                    why = f'the documentation `{mark}` is not one comment block immediately in front of the property {key}'
            if why:
                rep.violations.append({'what': f'{TG["corpus"][dd]["src"][:90]}..: {why} [with docs {with_docs!r}; without {without!r}]',
                                       'witness': {'item': dd}, 'key': f'doctwin/{dd}'})
            else:
                rep.discharged += 1
    rep.part('doc twins (tier B corpus DD1..DD4 vs DN1..DN4)', pairs=len(DOC_TWINS))


def shared_file_docs(rep):
    """Files holding several documented types: after every export order each declaration still has its own comment block immediately
    in front of it (the canonical-file oracle of props/c05.py; reduced cells in which the types carry doc blocks, F10's class excluded
    by construction: the fixed doc blocks contain no empty line)"""
    from . import c05
    c05.setup()
    c05.G['time_budget'] = G.get('time_budget')
    items5 = []
    for perm in ([0], [1]):
        items5.append(dict(k=2, doc0='fixed', body0=0, imps=[[0, 1], [0]], docs=[[1, 2, 3], [0, 1, 2]], generic=[0], perms=perm))
    for perm in range(6):
        items5.append(dict(k=3, doc0='fixed', body0=0, imps=[[0], [0], [0]], docs=[[1], [0, 2], [1]], generic=[], perms=[perm]))
    cand5, cand5_i = [], []
    for r in par.pmap(c05.explore, items5):
        cand5 += r.pop('violations', [])
        cand5_i += r.pop('violations_ident', [])
        r.pop('known_hits', None)
        rep.absorb(r)
    if cand5 and not cand5_i:
        cand5 = []
    seen = {}
    for c in cand5:
        seen.setdefault(c['what'], c)
    for c in seen.values():
        is_viol, details = c05.native_confirm(c)
        c['native'] = details
        if is_viol:
            rep.violations.append({'what': f'documented types in a shared file: {c["what"]} (order {c["order"]}, names {c["names"]})',
                                   'witness': c, 'key': 'shared/' + c['what']})
        else:
            rep.inconclusive.append(f'engine counterexample does not reproduce natively: {c["what"]}')
    rep.functions += describe(c05.G['fns'], ['export_and_merge', 'merge'])
    rep.part('documented types in shared files (reduced C05 cells)', cells=len(items5))


def main():
    rep = report.Report('C15', 'bounded symbolic execution of rustc MIR: parse_docs/escape_doc on attribute lists whose kind flags and doc '
                               'text bytes are symbolic; z3 decides on every path that the result is empty or one /** .. */ block whose only '
                               '`*/` is the final one and which contains every text in order')
    setup()
    quick = TIER == 'quick'
    G['time_budget'] = 1500 if quick else 7000
    rep.functions = describe(G['fns'], [G['parse_docs']] + fn_names(G['fns'], '', 'parse_docs::{closure') + fn_names(G['fns'], 'escape_doc')
                             + [G['field_merge']])
    rep.configs = ['ts-rs-macros: serde-compat']
    validate(rep, 60 if quick else 600)
    try:
        merge_part(rep)
    except Unsupported as e:
        rep.inconclusive.append(f'merge_part: {e}')
    docs_do_not_alter_type(rep)
    try:
        shared_file_docs(rep)
    except Unsupported as e:
        rep.inconclusive.append(f'shared files: {e}')
    maxlen = 4 if quick else 5
    items = [()] + [(a,) for a in range(0, maxlen + 2)] + [(a, b) for a in range(0, maxlen + 1) for b in range(0, maxlen + 1) if a + b <= maxlen + 1]
    items += [(a, b, c) for a in range(0, 2 if quick else 3) for b in range(0, 2 if quick else 3) for c in range(0, 2 if quick else 3)]
    rep.bounds = {'attributes': 'up to %d, each: name-value or not / path doc or not / value a string literal or not (symbolic)' % max(len(i) for i in items),
                  'text': f'all strings with the listed lengths over {ALPHA!r}', 'length_tuples': [list(i) for i in items]}
    rep.outside += ['texts longer than the bound / other characters', 'the position-specific plumbing of docs in format_field / into_impl '
                    '(token-stream builders)', 'merge into a shared file (C05)']
    rep.stubs += ['syn::Meta::require_name_value, syn::Path::is_ident, LitStr::value -> harness-controlled symbolic answers']
    results = par.pmap(explore, items)
    cand = []
    for r in results:
        cand += r.pop('violations', [])
        rep.absorb(r)
    seen = {}
    for c in cand:
        seen.setdefault((c['what'], c.get('n_attrs')), c)
    for c in seen.values():
        if not c.get('texts'):
            rep.inconclusive.append(f'engine finding without replayable witness: {c}')
            continue
        nat = G['native'].one('docs', *c['texts'])
        c['native'] = nat
        if nat[0] == 'panic' or (nat[0] == 'ok' and not block_ok(nat[1], c['texts'])):
            rep.violations.append({'what': f'docs {c["texts"]!r} -> {nat[1]!r}: {c["what"]}', 'witness': c, 'key': c['what']})
        else:
            rep.inconclusive.append(f'engine counterexample does not reproduce natively: {c}')
    return rep.finish()


def replay(path):
    import json
    setup()
    w = json.load(open(path))['witness']
    nat = G['native'].one('docs', *w['texts'])
    print(nat)
    return 1 if nat[0] == 'panic' or not block_ok(nat[1], w['texts']) else 0


if __name__ == '__main__':
    if len(sys.argv) > 2 and sys.argv[1] == '--replay':
        sys.exit(replay(sys.argv[2]))
    run_main(main)
