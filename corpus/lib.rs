#![allow(dead_code, unused)]
use std::collections::HashMap;
use ts_rs::TS;
pub fn sym_a() -> String { String::new() }
pub fn sym_b() -> String { String::new() }
#[derive(TS)] pub struct Inner<T> { pub x: T, pub y: Option<T> }
#[derive(TS)] pub struct G1<T> { pub a: T, pub b: Vec<T>, pub c: Option<T> }
#[derive(TS)] pub struct G2<T, U> { pub a: T, pub b: (T, U), pub c: HashMap<String, U> }
#[derive(TS)] pub struct G3<T = i32> { pub a: T }
#[derive(TS)] #[ts(concrete(U = i32))] pub struct G5<T, U> { pub a: T, pub b: U }
#[derive(TS)] pub struct G6<T> { pub k: bool, #[ts(inline)] pub a: Inner<T>, #[ts(flatten)] pub b: Inner<T> }
#[derive(TS)] pub enum G7<T> { A(T), B { v: Vec<T> }, C }
#[derive(TS)] pub struct G8<T>(pub Vec<T>);
#[derive(TS)] pub struct G9<T, U>(pub T, pub U);
#[derive(TS)] pub struct G10<T> { #[ts(inline)] pub a: T, #[ts(inline)] pub b: Option<T>, #[ts(inline)] pub c: Vec<T> }
#[derive(TS)] pub struct G11<'a, T: Clone, U = String> where T: 'a { pub a: &'a T, pub b: Box<U> }
#[derive(TS)] #[ts(tag = "kind")] pub enum G12<T> { A { v: T }, B }
#[derive(TS)] pub struct P1<T> { pub f: T }
#[derive(TS)] pub struct P2<T> { #[ts(inline)] pub f: T }
#[derive(TS)] pub struct P3<T> { pub a: bool, #[ts(flatten)] pub f: T }
#[derive(TS)] pub struct P4<T> { #[ts(flatten)] pub f: T }
#[derive(TS)] pub struct P5<T, U> { #[ts(flatten)] pub f: T, #[ts(flatten)] pub g: U }
#[derive(TS)] pub struct P6<T> { #[ts(as = "Vec<T>")] pub f: i32, pub g: T }
#[derive(TS)] pub struct P7<T> { pub f: Vec<T>, pub g: T }
#[derive(TS)] pub struct P8<T> { pub a: bool, #[ts(flatten)] pub f: T, #[ts(flatten)] pub g: Inner<T> }
#[derive(TS)] pub enum P9<T> { #[ts(as = "Vec<T>")] A(i32), B(T) }
#[derive(TS)] pub enum P10<T> { A(Vec<T>), B(T) }
#[derive(TS)] #[ts(as = "Vec<T>")] pub struct P11<T> { pub never: T }
#[derive(TS)] #[ts(rename = sym_a())] pub struct R1<T> { #[ts(rename = "x")] pub a: T }
#[derive(TS)] #[ts(tag = "t", content = "c")] pub enum R2<T> { #[ts(rename = sym_a())] A(T), #[ts(rename = sym_b())] B { v: T }, C }
#[derive(TS)] #[ts(tag = "t")] pub enum R3<T> { #[ts(rename = sym_a())] A { v: T }, #[ts(rename = sym_b())] C }
#[derive(TS)] pub enum R4<T> { #[ts(rename = sym_a())] A(T), #[ts(rename = sym_b())] C }
/// doc text
#[derive(TS)] pub struct D1<T> { /** field doc */ pub a: T }
#[derive(TS)] pub struct D2<T> { pub a: T }
#[derive(TS)] #[ts(export_to = sym_a())] pub struct E1 { pub a: i32 }
#[derive(TS)] #[ts(export_to = "sub/dir/")] pub struct E2 { pub a: i32 }
#[derive(TS)] pub struct E3 { pub a: i32 }
#[derive(TS)] #[ts(export_to = "sub/file.ts")] pub struct E4 { pub a: i32 }
#[derive(TS)] #[ts(export_to = sym_a(), rename = sym_b())] pub struct E5<T> { pub a: T }
#[derive(TS)] pub struct G4<T, const N: usize> { pub a: [T; N], pub b: T }
#[derive(TS)] #[ts(optional_fields)] pub struct G13<T: TS> { pub b: Option<T>, pub c: i32, pub d: Option<Vec<T>> }
#[derive(TS)] pub struct G14<T, C = Vec<T>> { pub a: T, pub b: C }
#[derive(TS)] pub struct G15<A, B = A, C = Option<B>> { pub a: A, pub b: B, pub c: C }
#[derive(TS)] pub enum En1<T> { A { v: T } }
#[derive(TS)] pub enum En2<T> { A(T), B { w: T } }
#[derive(TS)] pub struct PF1<T> { pub id: bool, #[ts(flatten)] pub e: En1<T>, #[ts(flatten)] pub s: Inner<T> }
#[derive(TS)] pub struct PF2<T> { #[ts(flatten)] pub e: En2<T>, #[ts(flatten)] pub s: Inner<T> }
#[derive(TS)] pub struct PF3<T> { pub id: bool, #[ts(flatten)] pub s: Inner<T>, #[ts(flatten)] pub e: En1<T> }
#[derive(TS)] pub struct PF4<T> { #[ts(inline)] pub e: En1<T>, #[ts(inline)] pub s: Inner<T>, pub n: En2<T> }
#[derive(TS)] #[ts(concrete(D = i32))] pub struct G16<T, D = i32> { pub a: T, pub b: D }
#[derive(TS)] #[ts(concrete(D = i32))] pub struct G17<D = i32> { pub b: D }
#[derive(TS)] #[ts(tag = "type")] pub struct Tg1<T> { pub v: T }
#[derive(TS)] pub struct PF5<T> { pub id: bool, #[ts(flatten)] pub m: Tg1<T> }
#[derive(TS)] pub struct PF6<T> { #[ts(flatten)] pub m: Tg1<T> }
