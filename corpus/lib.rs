#![allow(dead_code, unused)]
use std::collections::HashMap;
use ts_rs::TS;
pub fn sym_a() -> String { String::new() }
pub fn sym_b() -> String { String::new() }
#[derive(TS)] pub struct Inner<T> { pub x: T, pub y: Option<T> }
#[derive(TS)] pub struct G1<T> { pub a: T, pub b: Vec<T>, pub c: Option<T> }
#[derive(TS)] pub struct G2<T, U> { pub a: T, pub b: (T, U), pub c: HashMap<String, U> }
#[derive(TS)] pub struct G3<T = i32> { pub a: T }
#[derive(TS)] #[ts(concrete(U = i32))] pub struct G5<T, U> { pub a: T, pub b: U }
#[derive(TS)] pub struct G6<T> { pub k: bool, #[ts(inline)] pub a: Inner<T>, #[ts(flatten)] pub b: Inner<T> }
#[derive(TS)] pub enum G7<T> { A(T), B { v: Vec<T> }, C }
#[derive(TS)] pub struct G8<T>(pub Vec<T>);
#[derive(TS)] pub struct G9<T, U>(pub T, pub U);
#[derive(TS)] pub struct G10<T> { #[ts(inline)] pub a: T, #[ts(inline)] pub b: Option<T>, #[ts(inline)] pub c: Vec<T> }
#[derive(TS)] pub struct G11<'a, T: Clone, U = String> where T: 'a { pub a: &'a T, pub b: Box<U> }
#[derive(TS)] #[ts(tag = "kind")] pub enum G12<T> { A { v: T }, B }
#[derive(TS)] pub struct P1<T> { pub f: T }
#[derive(TS)] pub struct P2<T> { #[ts(inline)] pub f: T }
#[derive(TS)] pub struct P3<T> { pub a: bool, #[ts(flatten)] pub f: T }
#[derive(TS)] pub struct P4<T> { #[ts(flatten)] pub f: T }
#[derive(TS)] pub struct P5<T, U> { #[ts(flatten)] pub f: T, #[ts(flatten)] pub g: U }
#[derive(TS)] pub struct P6<T> { #[ts(as = "Vec<T>")] pub f: i32, pub g: T }
#[derive(TS)] pub struct P7<T> { pub f: Vec<T>, pub g: T }
#[derive(TS)] pub struct P8<T> { pub a: bool, #[ts(flatten)] pub f: T, #[ts(flatten)] pub g: Inner<T> }
#[derive(TS)] pub enum P9<T> { #[ts(as = "Vec<T>")] A(i32), B(T) }
#[derive(TS)] pub enum P10<T> { A(Vec<T>), B(T) }
#[derive(TS)] #[ts(as = "Vec<T>")] pub struct P11<T> { pub never: T }
#[derive(TS)] #[ts(rename = sym_a())] pub struct R1<T> { #[ts(rename = "x")] pub a: T }
#[derive(TS)] #[ts(tag = "t", content = "c")] pub enum R2<T> { #[ts(rename = sym_a())] A(T), #[ts(rename = sym_b())] B { v: T }, C }
#[derive(TS)] #[ts(tag = "t")] pub enum R3<T> { #[ts(rename = sym_a())] A { v: T }, #[ts(rename = sym_b())] C }
#[derive(TS)] pub enum R4<T> { #[ts(rename = sym_a())] A(T), #[ts(rename = sym_b())] C }
/// doc text
#[derive(TS)] pub struct D1<T> { /** field doc */ pub a: T }
#[derive(TS)] pub struct D2<T> { pub a: T }
#[derive(TS)] #[ts(export_to = sym_a())] pub struct E1 { pub a: i32 }
#[derive(TS)] #[ts(export_to = "sub/dir/")] pub struct E2 { pub a: i32 }
#[derive(TS)] pub struct E3 { pub a: i32 }
#[derive(TS)] #[ts(export_to = "sub/file.ts")] pub struct E4 { pub a: i32 }
#[derive(TS)] #[ts(export_to = sym_a(), rename = sym_b())] pub struct E5<T> { pub a: T }
#[derive(TS)] pub struct G4<T, const N: usize> { pub a: [T; N], pub b: T }
#[derive(TS)] #[ts(optional_fields)] pub struct G13<T: TS> { pub b: Option<T>, pub c: i32, pub d: Option<Vec<T>> }
#[derive(TS)] pub struct G14<T, C = Vec<T>> { pub a: T, pub b: C }
#[derive(TS)] pub struct G15<A, B = A, C = Option<B>> { pub a: A, pub b: B, pub c: C }
#[derive(TS)] pub enum En1<T> { A { v: T } }
#[derive(TS)] pub enum En2<T> { A(T), B { w: T } }
#[derive(TS)] pub struct PF1<T> { pub id: bool, #[ts(flatten)] pub e: En1<T>, #[ts(flatten)] pub s: Inner<T> }
#[derive(TS)] pub struct PF2<T> { #[ts(flatten)] pub e: En2<T>, #[ts(flatten)] pub s: Inner<T> }
#[derive(TS)] pub struct PF3<T> { pub id: bool, #[ts(flatten)] pub s: Inner<T>, #[ts(flatten)] pub e: En1<T> }
#[derive(TS)] pub struct PF4<T> { #[ts(inline)] pub e: En1<T>, #[ts(inline)] pub s: Inner<T>, pub n: En2<T> }
#[derive(TS)] #[ts(concrete(D = i32))] pub struct G16<T, D = i32> { pub a: T, pub b: D }
#[derive(TS)] #[ts(concrete(D = i32))] pub struct G17<D = i32> { pub b: D }
#[derive(TS)] #[ts(tag = "type")] pub struct Tg1<T> { pub v: T }
#[derive(TS)] pub struct PF5<T> { pub id: bool, #[ts(flatten)] pub m: Tg1<T> }
#[derive(TS)] pub struct PF6<T> { #[ts(flatten)] pub m: Tg1<T> }
#[derive(TS)] pub struct IO1<T> { #[ts(inline)] pub a: Option<Inner<T>>, #[ts(inline)] pub b: Vec<Inner<T>>, #[ts(inline)] pub c: Box<Inner<T>> }
#[derive(TS)] pub struct NO1<T> { pub a: Option<Inner<T>>, pub b: Vec<Inner<T>>, pub c: Box<Inner<T>> }
#[derive(TS)] pub struct FL1<T> { pub q: bool, #[ts(flatten)] pub s: Inner<T> }
#[derive(TS)] pub struct FL2<T> { pub r: bool, #[ts(flatten)] pub t: FL1<T> }
#[derive(TS)] #[ts(rename_all = "UPPERCASE")] pub struct FL3<T> { pub aa: bool, #[ts(flatten)] pub s: Inner<T> }
#[derive(TS)] pub struct FL4<T> { #[ts(skip)] pub z: bool, #[ts(optional)] pub o: Option<T>, #[ts(flatten)] pub s: Inner<T> }
#[derive(TS)] pub struct TS1<T>(pub T, pub Vec<T>);
#[derive(TS)] pub struct NT1<T>(pub Option<T>);
#[derive(TS)] pub struct U1;
#[derive(TS)] #[ts(untagged)] pub enum EU<T> { A(T), B { v: T } }
#[derive(TS)] #[ts(tag = "t")] pub enum ET<T> { A { v: T }, B }
#[derive(TS)] #[ts(tag = "t", content = "c")] pub enum EA<T> { A(T), B { v: T }, C }
#[derive(TS)] pub struct IE1<T> { #[ts(inline)] pub u: EU<T>, #[ts(inline)] pub t: ET<T>, #[ts(inline)] pub a: EA<T>, #[ts(inline)] pub n: NT1<T>, #[ts(inline)] pub p: TS1<T> }
#[derive(TS)] pub struct NE1<T> { pub u: EU<T>, pub t: ET<T>, pub a: EA<T>, pub n: NT1<T>, pub p: TS1<T> }
#[derive(TS)] pub struct FE1<T> { pub k: bool, #[ts(flatten)] pub t: ET<T> }
#[derive(TS)] #[ts(tag = "t")] pub enum IT1<T> { A(#[ts(inline)] EU<T>), B }
#[derive(TS)] #[ts(tag = "t")] pub enum IT2<T> { A(EU<T>), B }
#[derive(TS)] #[ts(tag = "t", content = "c")] pub enum IA1<T> { A(#[ts(inline)] EU<T>), B }
#[derive(TS)] #[ts(tag = "t", content = "c")] pub enum IA2<T> { A(EU<T>), B }
#[derive(TS)] pub enum IX1<T> { A(#[ts(inline)] EU<T>), B { #[ts(inline)] e: ET<T> } }
#[derive(TS)] pub enum IX2<T> { A(EU<T>), B { e: ET<T> } }
#[derive(TS)] #[ts(untagged)] pub enum IU1<T> { A(#[ts(inline)] ET<T>), B(#[ts(inline)] Inner<T>, T) }
#[derive(TS)] #[ts(untagged)] pub enum IU2<T> { A(ET<T>), B(Inner<T>, T) }
#[derive(TS)] pub struct Mk<T: TS> { pub raw: u32, #[ts(skip)] pub m: std::marker::PhantomData<T> }
#[derive(TS)] pub struct Ov<T: TS> { #[ts(type = "Array<T>")] pub items: Vec<T>, pub total: u32 }
#[derive(TS)] pub struct K1<T> { #[ts(rename = "a-b")] pub x: T, #[ts(type = "string", rename = "c-d")] pub y: i32, #[ts(rename = "1st")] pub z: T, #[ts(optional, rename = "o p")] pub w: Option<T> }
#[derive(TS)] #[ts(rename_all = "kebab-case")] pub struct K2<T> { pub foo_bar: T, #[ts(type = "number")] pub baz_qux: i32, #[ts(inline)] pub in_l: Inner<T>, #[ts(flatten)] pub fl_t: Inner<T> }
#[derive(TS)] #[ts(rename_all_fields = "kebab-case")] pub enum K3<T> { A { foo_bar: T, #[ts(type = "number")] baz_qux: i32 }, #[ts(rename_all = "SCREAMING-KEBAB-CASE")] B { qu_ux: T } }
#[derive(TS)] pub enum K4<T> { #[ts(rename = "v-1")] A(T), #[ts(rename = "v 2")] B { x: T }, #[ts(rename = "3rd")] C }
#[derive(TS)] #[ts(tag = "t-g", content = "c t")] pub enum K5<T> { A(T), #[ts(rename = "b-b")] B { #[ts(rename = "y-y")] y: T } }
#[derive(TS)] pub struct K6<T> { pub r#type: T, pub r#struct: i32, #[ts(type = "boolean")] pub r#fn: i32 }
#[derive(TS)] #[ts(tag = "ki-nd")] pub struct K7<T> { #[ts(rename = "va-l")] pub v: T }
#[derive(TS)] #[doc = "cdoc"] pub struct DD1<T> { #[doc = "da {0} {{b}}"] #[ts(rename = "a-b")] pub a: T, #[doc = "db"] #[ts(type = "string")] pub b: i32, #[doc = "dc"] #[ts(optional)] pub c: Option<T>, #[doc = "dd"] #[ts(inline)] pub d: Inner<T>, #[doc = "de"] #[ts(flatten)] pub e: Inner<T>, #[doc = "df"] pub r#type: T }
#[derive(TS)] pub struct DN1<T> { #[ts(rename = "a-b")] pub a: T, #[ts(type = "string")] pub b: i32, #[ts(optional)] pub c: Option<T>, #[ts(inline)] pub d: Inner<T>, #[ts(flatten)] pub e: Inner<T>, pub r#type: T }
#[derive(TS)] #[doc = "cdoc"] pub enum DD2<T> { #[doc = "va"] A(T), #[doc = "vb"] B { #[doc = "fa {1}"] x: T, #[doc = "fb"] #[ts(rename = "y-y")] y: T }, #[doc = "vc"] C }
#[derive(TS)] pub enum DN2<T> { A(T), B { x: T, #[ts(rename = "y-y")] y: T }, C }
#[derive(TS)] #[ts(tag = "t")] #[doc = "cdoc"] pub enum DD3<T> { #[doc = "va"] A { #[doc = "fa"] x: T }, #[doc = "vb"] B }
#[derive(TS)] #[ts(tag = "t")] pub enum DN3<T> { A { x: T }, B }
#[derive(TS)] #[doc = "cdoc"] pub struct DD4<T>(#[doc = "ta"] pub T, #[doc = "tb"] pub Vec<T>);
#[derive(TS)] pub struct DN4<T>(pub T, pub Vec<T>);
#[derive(TS)] #[ts(rename_all = "UPPERCASE")] pub struct RN1<T> { #[ts(rename = "keep")] pub a: T, pub bb: T, pub r#type: T }
#[derive(TS)] #[ts(rename_all = "lowercase")] pub enum RN2<T> { #[ts(rename = "Keep")] A(T), Bb { cc_dd: T }, CcDd }
#[derive(TS)] #[ts(rename_all = "camelCase", rename_all_fields = "UPPERCASE")] pub enum RN3<T> { FooBar { baz_qux: T }, #[ts(rename_all = "kebab-case")] QuuxCorge { grault_x: T, #[ts(rename = "own")] y: T } }
#[derive(TS)] #[ts(rename_all = "SCREAMING_SNAKE_CASE", tag = "kind")] pub enum RN4<T> { HttpServer { port_no: T }, V2Beta, #[ts(skip)] Hidden }
#[derive(TS)] #[ts(rename_all = "kebab-case")] pub struct RN5<T> { pub http_server2: T, pub _lead: T, pub trail_: T, pub a: T }
#[derive(TS)] pub struct S1<T>(pub T, #[ts(skip)] pub i32, #[ts(inline)] pub Inner<T>);
#[derive(TS)] pub struct S2<T> { #[ts(optional = nullable)] pub a: Option<T>, #[ts(optional)] pub b: Option<Vec<T>>, pub c: Option<Option<T>> }
#[derive(TS)] #[ts(optional_fields = nullable)] pub struct S3<T: TS> { pub a: Option<T>, pub b: Vec<T> }
#[derive(TS)] #[ts(tag = "k")] pub enum S4<T> { A { v: T }, #[ts(untagged)] B(T), #[ts(skip)] C, D {}, E }
#[derive(TS)] pub enum S5<T> { A(T, Vec<T>), B(#[ts(skip)] i32, T), C {}, D() }
#[derive(TS)] pub struct S6<T, E> { pub r: Result<T, E>, pub t: (T, E, bool), pub a: [T; 2], pub m: HashMap<String, Vec<T>>, pub n: Vec<Option<(T, E)>> }
#[derive(TS)] pub struct S7<T> { pub v: T, pub kids: Vec<S7<T>>, pub parent: Option<Box<S7<T>>> }
#[derive(TS)] #[ts(type = "Array<number>")] pub struct S8<T: TS> { pub never: T }
#[derive(TS)] pub struct S9<T> {  #[ts(as = "Option<T>")] pub a: i32, #[ts(as = "Option<T>", optional)] pub b: i32, #[ts(type = "T | null")] pub c: i32, pub z: T }
#[derive(TS)] #[ts(bound = "T: TS")] pub struct S10<T: Clone> { pub a: T }
#[derive(TS)] #[ts(tag = "t", content = "c", rename_all = "snake_case")] pub enum S11<T> { FooBar(T), BazQux { qu_ux: T }, #[ts(rename = "X")] Y(T, T) }
#[derive(TS)] #[ts(untagged)] pub enum S12<T> { A(T), B { v: T }, C, D(T, T) }
#[derive(TS)] #[ts(optional_fields)] pub struct OF1<T: TS> { #[ts(optional)] pub a: Option<T>, #[ts(optional = nullable)] pub b: Option<Vec<T>>, pub c: Option<bool>, pub d: i32 }
#[derive(TS)] pub enum OF2<T> { A { #[ts(optional)] a: Option<T>, b: T }, B { #[ts(optional = nullable)] c: Option<Vec<T>> } }
#[derive(TS)] pub struct IN1<T> { #[ts(inline)] pub a: Inner<T>, pub b: Inner<T> }
#[derive(TS)] pub struct IN2<T> { pub a: Inner<T>, #[ts(inline)] pub b: Inner<T> }
#[derive(TS)] pub struct IN3<T> { #[ts(flatten)] pub a: Inner<T>, pub b: Inner<T> }
#[derive(TS)] pub enum IN4<T> { A { #[ts(inline)] a: Inner<T>, b: Inner<T> }, B(Inner<T>, #[ts(inline)] Inner<T>) }
#[derive(TS)] pub struct IO2<T> { #[ts(inline)] pub m: HashMap<String, Inner<T>>, #[ts(inline)] pub o: Option<Vec<Inner<T>>>, #[ts(inline)] pub a: [Inner<T>; 2] }
#[derive(TS)] pub struct NO2<T> { pub m: HashMap<String, Inner<T>>, pub o: Option<Vec<Inner<T>>>, pub a: [Inner<T>; 2] }
#[derive(TS)] #[ts(as = "Option<T>")] pub enum AE1<T> { A(T) }
#[derive(TS)] #[ts(tag = "t")] pub struct TF1<T> { pub id: bool, #[ts(flatten)] pub s: Inner<T> }
#[derive(TS)] pub struct GF1<T, U> { #[ts(flatten)] pub a: G2<T, U>, pub z: U }
#[derive(TS)] #[ts(concrete(E = i32))] pub struct G18<E, T> { pub error: E, pub data: T }
#[derive(TS)] #[ts(concrete(B = bool))] pub enum G19<A, B, C> { X(A, B, C), Y { b: B, c: C } }
#[derive(TS)] pub struct OI1<T> { #[ts(optional, inline)] pub a: Option<Inner<T>>, #[ts(optional = nullable, inline)] pub b: Option<Inner<T>>, #[ts(inline)] pub c: Option<Inner<T>> }
#[derive(TS)] pub struct ON1<T> { #[ts(optional)] pub a: Option<Inner<T>>, #[ts(optional = nullable)] pub b: Option<Inner<T>>, pub c: Option<Inner<T>> }
#[derive(TS)] #[ts(optional_fields)] pub struct OI2<T: TS> { #[ts(inline)] pub a: Option<Inner<T>>, #[ts(inline)] pub v: Vec<T> }
#[derive(TS)] #[ts(optional_fields)] pub struct ON2<T: TS> { pub a: Option<Inner<T>>, pub v: Vec<T> }
#[derive(TS)] pub struct DP1<T> { #[ts(skip)] pub a: En1<T>, #[ts(type = "string")] pub b: FL1<T>, #[ts(as = "P1<T>")] pub c: G1<T>, pub d: HashMap<Inner<T>, bool>, pub e: Option<(En2<T>, Vec<P2<T>>)> }
#[derive(TS)] pub enum DP2<T> { A(Inner<T>), #[ts(skip)] B(En1<T>), #[ts(type = "number")] C(FL1<T>), #[ts(as = "P1<T>")] D(G1<T>), E { x: En2<T>, #[ts(skip)] y: G7<T> }, F(#[ts(skip)] G8<T>, P2<T>) }
#[derive(TS)] #[ts(tag = "t", content = "c")] pub enum DP3<T> { A(Inner<T>), B { x: En2<T> }, #[ts(skip)] C(En1<T>) }
#[derive(TS)] pub enum EK1 { A, B }
#[derive(TS)] pub struct IM1<T> { #[ts(inline)] pub m: HashMap<EK1, T>, #[ts(inline)] pub v: Vec<HashMap<EK1, Inner<T>>> }
#[derive(TS)] pub struct IM2<T> { pub m: HashMap<EK1, T>, pub o: Option<Vec<(EK1, Inner<T>)>> }
#[derive(TS)] pub enum r#RawE<T> { A(T), r#B }
#[derive(TS)] pub struct r#RawS<T> { pub r#a: T }
#[derive(TS)] pub struct RawU<T> { pub e: r#RawE<T>, pub s: r#RawS<T> }
#[derive(TS)] #[ts(optional_fields)] pub struct OA1<T: TS> { #[ts(as = "Option<T>")] pub a: i32, pub b: Option<T>, #[ts(as = "Vec<T>")] pub c: i32, #[ts(as = "Option<Vec<T>>", inline)] pub d: i32 }
#[derive(TS)] #[ts(optional_fields)] pub struct OA2<T: TS> { pub a: Option<T>, pub b: Option<T>, pub c: Vec<T>, #[ts(inline)] pub d: Option<Vec<T>> }
#[derive(TS)] #[ts(optional_fields = nullable)] pub struct OA3<T: TS> { #[ts(as = "Option<T>")] pub a: i32, pub b: Vec<T> }
#[derive(TS)] #[ts(optional_fields = nullable)] pub struct OA4<T: TS> { pub a: Option<T>, pub b: Vec<T> }
#[derive(TS)] #[doc = "cdoc"] #[ts(rename = "Ren")] pub struct DD5<T> { #[doc = "da"] pub a: Vec<T>, #[ts(skip)] #[doc = "hidden"] pub s: i32 }
#[derive(TS)] #[ts(rename = "Ren")] pub struct DN5<T> { pub a: Vec<T>, #[ts(skip)] pub s: i32 }
#[derive(TS)] pub struct G20<T = (), U = (i32, String), V = [u8; 2]> { pub a: T, pub b: U, pub c: V }
#[derive(TS)] pub struct G21<A = i32, B = (A, bool)> { pub a: A, pub b: B }
#[derive(TS)] #[doc = "cdoc"] #[ts(type = "0 | 1")] pub enum DD6<T: TS> { A(T), B }
#[derive(TS)] #[ts(type = "0 | 1")] pub enum DN6<T: TS> { A(T), B }
#[derive(TS)] #[doc = "cdoc"] #[ts(as = "Vec<T>")] pub enum DD7<T> { A(T) }
#[derive(TS)] #[ts(as = "Vec<T>")] pub enum DN7<T> { A(T) }
#[derive(TS)] #[doc = "cdoc"] #[ts(as = "Vec<T>")] pub struct DD8<T> { pub never: T }
#[derive(TS)] #[ts(as = "Vec<T>")] pub struct DN8<T> { pub never: T }
#[derive(TS)] pub struct FS1<T> { #[ts(optional)] pub o: Option<T>, #[ts(rename = "r-n")] pub r: T, #[ts(inline)] pub i: Inner<T> }
#[derive(TS)] pub struct FP1<T> { pub k: bool, #[ts(flatten)] pub f: FS1<T> }
#[derive(TS)] #[ts(rename_all = "UPPERCASE")] pub struct FS2<T> { pub ab: T }
#[derive(TS)] #[ts(rename_all = "camelCase")] pub struct FP2<T> { pub my_key: bool, #[ts(flatten)] pub f: FS2<T>, #[ts(flatten)] pub g: Inner<T> }
#[derive(TS)] #[ts(tag = "t")] pub enum FV1<T> { A { k: bool, #[ts(flatten)] f: Inner<T> }, B }
#[derive(TS)] #[ts(tag = "t", content = "c")] pub enum FV2<T> { A { k: bool, #[ts(flatten)] f: Inner<T> }, B }
#[derive(TS)] pub struct AT1<T>(#[ts(as = "Vec<T>")] pub i32, pub T);
#[derive(TS)] pub struct AT2<T>(#[ts(as = "Option<T>")] pub Vec<T>);
#[derive(TS)] #[ts(tag = "t", content = "c")] pub enum IA3<T> { A(#[ts(as = "Inner<T>", inline)] Vec<T>), B(#[ts(as = "Vec<Inner<T>>")] Vec<T>) }
#[derive(TS)] #[ts(tag = "t", content = "c")] pub enum IA4<T> { A(#[ts(inline)] Inner<T>), B(Vec<Inner<T>>) }
#[derive(TS)] #[ts(tag = "t")] pub enum IT3<T> { A(#[ts(as = "Inner<T>", inline)] Vec<T>), B(#[ts(as = "Inner<T>")] Vec<T>) }
#[derive(TS)] #[ts(tag = "t")] pub enum IT4<T> { A(#[ts(inline)] Inner<T>), B(Inner<T>) }
#[derive(TS)] pub enum IX3<T> { A(#[ts(as = "Inner<T>", inline)] Vec<T>), B(#[ts(as = "Vec<Inner<T>>", inline)] Vec<T>, T) }
#[derive(TS)] pub enum IX4<T> { A(#[ts(inline)] Inner<T>), B(#[ts(inline)] Vec<Inner<T>>, T) }
