fn main() {
    for (name, f) in selftest::ALL {
        let r = std::panic::catch_unwind(|| f());
        match r { Ok(s) => println!("{name}\t{}", s.escape_default()), Err(_) => println!("{name}\tPANIC") }
    }
}
