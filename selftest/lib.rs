//! Self-test of mirsym's std models: every `t_*` function exercises std APIs on concrete inputs and folds the results into a
//! String.  `props/selftest.py` runs each function through the symbolic executor (with the Python models standing in for std)
//! and compares with the natively compiled result.  A model that disagrees with std would otherwise show up only as a
//! non-reproducing counterexample (or, worse, a miss) in a property check.
#![allow(clippy::all)]
use std::collections::{BTreeMap, BTreeSet, HashMap, HashSet};
use std::path::{Path, PathBuf};

fn b(x: bool) -> &'static str { if x { "1" } else { "0" } }

pub fn t_char_ascii() -> String {
    let mut o = String::new();
    for c in "aZ5_ -~\t\u{e9}".chars() {
        o.push_str(b(c.is_ascii_uppercase())); o.push_str(b(c.is_ascii_lowercase())); o.push_str(b(c.is_ascii_alphabetic()));
        o.push_str(b(c.is_ascii_digit())); o.push_str(b(c.is_ascii_alphanumeric())); o.push_str(b(c.is_ascii_punctuation()));
        o.push_str(b(c.is_ascii_whitespace())); o.push_str(b(c.is_ascii())); o.push('|');
    }
    o
}
pub fn t_eq_ignore_case() -> String {
    format!("{}{}{}", b("HeLLo".eq_ignore_ascii_case("hello")), b("a".eq_ignore_ascii_case("ab")), b("x_1".eq_ignore_ascii_case("X_1")))
}
pub fn t_split_at() -> String {
    let (a, c) = "hello/world".split_at(5);
    format!("{a}|{c}|{}", b("h\u{e9}llo".is_char_boundary(2)))
}
pub fn t_splitn() -> String {
    let v: Vec<&str> = "a=b=c".splitn(2, '=').collect();
    let w: Vec<&str> = "abc".splitn(3, '=').collect();
    format!("{}|{}", v.join(","), w.join(","))
}
pub fn t_option_misc() -> String {
    let mut o = String::new();
    let s = Some(4usize);
    o.push_str(b(s.filter(|x| *x > 3).is_some())); o.push_str(b(s.filter(|x| *x > 4).is_some()));
    o.push_str(b(s.is_some_and(|x| x == 4)));
    let mut t = Some(String::from("q"));
    let u = t.take();
    o.push_str(b(t.is_none())); o.push_str(&u.unwrap());
    let mut n: Option<String> = None;
    n.get_or_insert_with(|| String::from("dflt")).push('!');
    o.push_str(n.as_deref().unwrap());
    let r: Result<usize, String> = None.ok_or(String::from("e"));
    o.push_str(&r.unwrap_err());
    let z = Some(1usize).zip(Some("z"));
    o.push_str(z.unwrap().1);
    let words = vec![String::from("w")];
    o.push_str(&words.first().cloned().unwrap());
    o
}
pub fn t_result_misc() -> String {
    let ok: Result<usize, String> = Ok(3);
    let er: Result<usize, String> = Err(String::from("bad"));
    let mut o = String::new();
    o.push_str(b(ok.is_ok())); o.push_str(b(er.is_err()));
    o.push_str(&ok.clone().and_then(|x| if x > 2 { Err::<usize, String>(String::from("big")) } else { Ok(x) }).unwrap_err());
    o.push_str(&er.clone().or_else(|e| if e == "bad" { Ok::<usize, String>(9) } else { Err(e) }).unwrap().to_string());
    o.push_str(&er.clone().unwrap_or_else(|e| e.len()).to_string());
    o.push_str(&er.clone().unwrap_or(7).to_string());
    o
}
pub fn t_iter_misc() -> String {
    let v = vec!["a", "bb", "ccc", "dd"];
    let mut o = String::new();
    for (x, y) in v.iter().zip(v.iter().skip(1)) { o.push_str(x); o.push_str(y); o.push(','); }
    o.push('|');
    o.push_str(&v.iter().take_while(|x| x.len() < 3).map(|x| x.to_string()).collect::<Vec<_>>().join("+"));
    o.push('|');
    o.push_str(&v.iter().skip_while(|x| x.len() < 3).map(|x| x.to_string()).collect::<Vec<_>>().join("+"));
    o.push('|');
    o.push_str(&v.iter().position(|x| *x == "ccc").unwrap().to_string());
    o.push_str(v.iter().find(|x| x.len() == 2).unwrap());
    o.push_str(&v.iter().find_map(|x| if x.len() == 3 { Some(x.to_uppercase()) } else { None }).unwrap());
    o.push('|');
    let nested = vec![vec!["p", "q"], vec![], vec!["r"]];
    o.push_str(&nested.into_iter().flatten().collect::<Vec<_>>().join(""));
    o.push('|');
    o.push_str(v.iter().nth(2).unwrap());
    o.push_str(&v.iter().step_by(2).map(|x| x.to_string()).collect::<Vec<_>>().join(""));
    o.push_str(&v.iter().map(|x| x.len()).sum::<usize>().to_string());
    o.push_str(v.iter().max().unwrap()); o.push_str(v.iter().min().unwrap());
    o.push('|');
    let (s, l): (Vec<&str>, Vec<&str>) = v.iter().partition(|x| x.len() < 2);
    o.push_str(&s.join("")); o.push('/'); o.push_str(&l.join(""));
    let (p, q): (Vec<usize>, Vec<&str>) = v.iter().map(|x| (x.len(), *x)).unzip();
    o.push_str(&p.len().to_string()); o.push_str(&q.join(""));
    let mut acc = String::new();
    v.iter().for_each(|x| acc.push_str(x));
    o.push_str(&acc);
    o.push_str(&v.iter().len().to_string());
    o.push_str(v.iter().next_back().unwrap());
    o.push_str(&v.iter().rev().map(|x| x.to_string()).collect::<Vec<_>>().join(""));
    o
}
pub fn t_vec_misc() -> String {
    let mut v = vec![String::from("x"), String::from("yy"), String::from("zzz"), String::from("w")];
    let r = v.remove(1);
    v.truncate(2);
    let mut o = format!("{r}:{}", v.join(","));
    v.push(String::from("abc")); v.push(String::from("ab"));
    v.retain(|s| s.len() != 3);
    o.push_str(&v.join(","));
    v.sort_by(|a, b| b.cmp(a));
    o.push('|'); o.push_str(&v.join(","));
    if let Some(l) = v.last_mut() { l.push('!'); }
    o.push_str(&v.join(","));
    v.clear();
    o.push_str(&v.len().to_string());
    let w = [1usize, 2, 3, 4, 5];
    for c in w.chunks(2) { o.push_str(&c.len().to_string()); }
    for c in w.windows(4) { o.push_str(&c[0].to_string()); }
    o
}
pub fn t_path_misc() -> String {
    let p = Path::new("/a/b/../c/D.ts");
    let mut o = String::new();
    for a in p.ancestors() { o.push_str(&a.to_string_lossy()); o.push(';'); }
    o.push('|');
    o.push_str(&p.strip_prefix("/a").unwrap().to_string_lossy());
    o.push_str(b(p.strip_prefix("/x").is_err()));
    o.push_str(b(p.ends_with("c/D.ts"))); o.push_str(b(p.ends_with("D")));
    for c in Path::new("x/./y//z/").iter() { o.push_str(&c.to_string_lossy()); o.push(','); }
    let mut q = PathBuf::from("/r/s");
    o.push_str(b(q.pop())); o.push_str(b(q.pop())); o.push_str(b(q.pop()));
    o.push_str(&q.to_string_lossy());
    o.push_str(&format!("{}", Path::new("m/n").display()));
    o.push_str(&format!("{:?}", "q\"t\\"));
    o.push_str(&Path::new("a/b.c.ts").with_extension("").to_string_lossy());
    o.push_str(&Path::new("a/b").join("../c").to_string_lossy());
    o.push_str(Path::new("a/b.tar.gz").extension().unwrap().to_str().unwrap());
    o.push_str(Path::new("a/b.tar.gz").file_stem().unwrap().to_str().unwrap());
    o.push_str(Path::new("a/b.tar.gz").file_name().unwrap().to_str().unwrap());
    o.push_str(&Path::new("a/b/c").parent().unwrap().to_string_lossy());
    o.push_str(b(Path::new("/a").is_absolute())); o.push_str(b(Path::new("a").is_relative()));
    o.push_str(b(Path::new("a/b") == Path::new("a//b/"))); o.push_str(b(Path::new("a/b").starts_with("a")));
    o
}
pub fn t_str_misc() -> String {
    let s = "  Hello, World_x  ";
    let mut o = String::new();
    o.push_str(s.trim()); o.push('|'); o.push_str(s.trim_start()); o.push('|'); o.push_str(s.trim_end()); o.push('|');
    o.push_str(&s.to_uppercase()); o.push_str(&s.to_lowercase()); o.push_str(&s.to_ascii_uppercase());
    o.push_str(&s.replace("l", "L")); o.push_str(&s.replace(' ', ""));
    o.push_str(b(s.contains("World"))); o.push_str(b(s.contains('z'))); o.push_str(b(s.trim().starts_with("He"))); o.push_str(b(s.trim().ends_with('x')));
    o.push_str(&s.find("World").unwrap().to_string()); o.push_str(&s.rfind('l').unwrap().to_string());
    o.push_str(s.trim().strip_prefix("Hello").unwrap()); o.push_str(s.trim().strip_suffix("_x").unwrap());
    o.push_str(s.trim().trim_start_matches('H')); o.push_str(s.trim().trim_end_matches("_x")); o.push_str("__a__".trim_matches('_'));
    o.push_str(&s.split(',').map(|x| x.trim()).collect::<Vec<_>>().join("/"));
    o.push_str(&s.split_whitespace().collect::<Vec<_>>().join("/"));
    o.push_str(&"a\nb\nc".lines().collect::<Vec<_>>().join("/"));
    o.push_str(&"k:v:w".rsplit(':').collect::<Vec<_>>().join("/"));
    let (l, r) = "k=v=w".split_once('=').unwrap(); o.push_str(l); o.push_str(r);
    let (l, r) = "k=v=w".rsplit_once('=').unwrap(); o.push_str(l); o.push_str(r);
    o.push_str(&"ab".repeat(3)); o.push_str(&s.len().to_string()); o.push_str(&s.chars().count().to_string());
    o.push_str(&s.chars().rev().collect::<String>()); o.push_str(&s.chars().filter(|c| c.is_alphabetic()).collect::<String>());
    o.push_str(&s.char_indices().filter(|(_, c)| c.is_uppercase()).map(|(i, _)| i.to_string()).collect::<Vec<_>>().join(","));
    o.push_str(&s[2..7]); o.push_str(&s[..3]); o.push_str(&s[15..]);
    o.push_str(b(s.is_empty())); o.push_str(b("".is_empty()));
    o.push_str(b("abc" < "abd")); o.push_str(b("abc" < "ab")); o.push_str(b("B" < "a"));
    let mut t = String::from("xyz"); t.insert(1, '-'); t.insert_str(0, ">>"); let c = t.pop().unwrap(); t.push(c.to_ascii_uppercase()); t.truncate(5);
    o.push_str(&t); o.push_str(&t.remove(0).to_string()); o.push_str(&t);
    o.push_str(&s.bytes().filter(|x| *x == b'l').count().to_string());
    o.push_str(&(s.as_bytes()[2] as char).to_string());
    o.push_str(&"7".parse::<usize>().unwrap().to_string()); o.push_str(b("x".parse::<usize>().is_err()));
    o
}
pub fn t_collections() -> String {
    let mut m = BTreeMap::new();
    m.insert("b", 2usize); m.insert("a", 1); m.insert("c", 3);
    let mut o = m.iter().map(|(k, v)| format!("{k}{v}")).collect::<Vec<_>>().join(",");
    o.push_str(b(m.contains_key("a"))); o.push_str(&m.get("c").unwrap().to_string()); o.push_str(&m.len().to_string());
    *m.entry("a").or_insert(0) += 10; m.entry("z").or_insert(26); m.remove("b");
    o.push_str(&m.iter().map(|(k, v)| format!("{k}{v}")).collect::<Vec<_>>().join(","));
    o.push_str(&m.keys().cloned().collect::<Vec<_>>().join("")); o.push_str(&m.values().sum::<usize>().to_string());
    let s: BTreeSet<&str> = ["q", "p", "q"].into_iter().collect();
    o.push_str(&s.iter().cloned().collect::<Vec<_>>().join("")); o.push_str(&s.len().to_string());
    let mut h = HashSet::new();
    o.push_str(b(h.insert("one"))); o.push_str(b(h.insert("one"))); o.push_str(b(h.contains("one"))); o.push_str(&h.len().to_string());
    let mut hm: HashMap<String, usize> = HashMap::new();
    hm.insert(String::from("k"), 1); *hm.entry(String::from("k")).or_default() += 1;
    o.push_str(&hm["k"].to_string()); o.push_str(b(hm.get("j").is_none()));
    let mut v: Vec<&str> = vec!["d", "a", "c", "a"]; v.sort(); v.dedup();
    o.push_str(&v.join("")); o.push_str(b(v.contains(&"c"))); o.push_str(&v.iter().any(|x| *x == "z").to_string()); o.push_str(&v.iter().all(|x| x.len() == 1).to_string());
    v.insert(1, "i"); v.extend(["e1", "e2"]); v.reverse(); o.push_str(&v.concat());
    o.push_str(&v.iter().enumerate().map(|(i, x)| format!("{i}{x}")).collect::<String>());
    o.push_str(&v.iter().fold(String::new(), |mut a, x| { a.push_str(x); a }));
    o.push_str(&v.iter().last().unwrap()); o.push_str(&v.iter().count().to_string());
    o.push_str(&v.iter().chain(["t"].iter()).filter_map(|x| x.strip_prefix('e')).collect::<Vec<_>>().join(""));
    o.push_str(&v.iter().flat_map(|x| x.chars()).take(3).collect::<String>());
    let mut pk = v.iter().peekable(); while let Some(x) = pk.next() { if pk.peek().is_some() { o.push_str(x); o.push('.'); } }
    o
}
pub fn t_int_misc() -> String {
    let a: usize = 7; let z: usize = 0;
    let mut o = String::new();
    o.push_str(&a.saturating_sub(9).to_string()); o.push_str(&a.checked_sub(9).is_none().to_string()); o.push_str(&a.min(3).to_string()); o.push_str(&a.max(30).to_string());
    o.push_str(&a.pow(2).to_string()); o.push_str(&(a % 4).to_string()); o.push_str(&(a / 2).to_string()); o.push_str(&usize::from(a > z).to_string());
    o.push_str(&z.wrapping_sub(1).to_string()); o.push_str(&(a as u8 as char).is_control().to_string());
    o.push_str(&format!("{:>4}|{:<3}|{:03}|{:x}", a, a, a, 255usize));
    o.push_str(&char::from_u32(0x41).unwrap().to_string()); o.push_str(&('a' as u32).to_string()); o.push_str(&char::from_digit(7, 10).unwrap().to_string());
    o.push_str(&'9'.to_digit(10).unwrap().to_string());
    o
}
pub fn t_misc2() -> String {
    let mut o = String::new();
    let mut a = String::from("old");
    let prev = std::mem::replace(&mut a, String::from("new"));
    let taken = std::mem::take(&mut a);
    o.push_str(&prev); o.push_str(&taken); o.push_str(b(a.is_empty()));
    let mut x = String::from("x"); let mut y = String::from("y");
    std::mem::swap(&mut x, &mut y); o.push_str(&x); o.push_str(&y);
    o.push_str(&std::iter::repeat("ab").take(3).collect::<Vec<_>>().join("-"));
    let mut v: Vec<String> = Vec::with_capacity(4);
    v.extend(["q".to_string(), "p".to_string()]); v.extend_from_slice(&["r".to_string()]);
    v.sort_by_key(|s| std::cmp::Reverse(s.clone()));
    o.push_str(&v.join(""));
    let bx: Box<[usize]> = (1..4).map(|i| i * i).collect();
    o.push_str(&bx.iter().map(|i| i.to_string()).collect::<Vec<_>>().join(","));
    o.push_str(&"héllo".char_indices().rev().map(|(i, c)| format!("{i}{c}")).collect::<String>());
    let r: Result<usize, String> = "12".parse::<usize>().map_err(|e| e.to_string());
    fn twice(r: Result<usize, String>) -> Result<usize, String> { let v = r?; Ok(v * 2) }
    o.push_str(&twice(r).unwrap().to_string()); o.push_str(&twice(Err("bad".into())).unwrap_err());
    let n: u8 = 250; o.push_str(&n.wrapping_add(10).to_string()); o.push_str(&n.checked_add(10).is_none().to_string());
    o.push_str(&(n as i8).to_string()); o.push_str(&(-1i32 as u32).to_string()); o.push_str(&(300usize as u8).to_string()); o.push_str(&(('a' as u8 + 2) as char).to_string());
    o.push_str(&(7i32 / -2).to_string()); o.push_str(&(7i32 % -2).to_string()); o.push_str(&(1u32 << 5).to_string()); o.push_str(&(0xF0u8 >> 4).to_string()); o.push_str(&(6 & 3 | 8 ^ 1).to_string());
    let words = ["b", "a", "c"]; let mut idx: Vec<usize> = (0..words.len()).collect(); idx.sort_by(|i, j| words[*i].cmp(words[*j]));
    o.push_str(&idx.iter().map(|i| i.to_string()).collect::<String>());
    o.push_str(&words.iter().rev().enumerate().map(|(i, w)| format!("{i}{w}")).collect::<String>());
    o.push_str(&words.binary_search(&"b").is_ok().to_string());
    let mut it = words.iter().peekable(); let mut acc = String::new();
    while let Some(w) = it.next() { acc.push_str(w); if let Some(nx) = it.peek() { acc.push_str(&nx.to_uppercase()); } }
    o.push_str(&acc);
    let opt: Option<&str> = Some("v"); o.push_str(opt.map(|s| s.len()).map_or("none", |_| "some")); o.push_str(opt.and_then(|s| s.strip_prefix('v')).unwrap_or("-"));
    o.push_str(&opt.into_iter().chain(None).chain(Some("w")).collect::<String>());
    let nested: Vec<(usize, Option<&str>)> = vec![(1, Some("a")), (2, None)];
    for (i, n) in &nested { match (i, n) { (1, Some(s)) => o.push_str(s), (k, None) => o.push_str(&k.to_string()), _ => o.push('?') } }
    o.push_str(&["x", "y"].concat()); o.push_str(&vec!["m"; 3].join("")); o.push_str(&[1usize, 5, 3].iter().max().unwrap().to_string());
    o.push_str(&"a,b;c".split(|c| c == ',' || c == ';').collect::<Vec<_>>().join("|")); o.push_str(&"x=1".split_terminator('=').last().unwrap());
    o.push_str(&"AbC".chars().map(|c| if c.is_uppercase() { c.to_ascii_lowercase() } else { c.to_ascii_uppercase() }).collect::<String>());
    o.push_str(&"tEsT".chars().flat_map(|c| c.to_uppercase()).collect::<String>()); o.push_str(&"ß".to_uppercase());
    o
}
pub fn t_patterns() -> String {
    let s = "  ab12Cd,e f;g  ";
    let mut o = String::new();
    o.push_str(&s.find(char::is_uppercase).unwrap().to_string()); o.push_str(&s.rfind(|c: char| c.is_ascii_digit()).unwrap().to_string());
    o.push_str(s.trim_start_matches(char::is_whitespace)); o.push('|'); o.push_str(s.trim_end_matches(|c: char| c == ' ' || c == 'g'));
    o.push('|'); o.push_str(&s.split(char::is_whitespace).filter(|x| !x.is_empty()).collect::<Vec<_>>().join("/"));
    o.push_str(b(s.trim().starts_with(char::is_alphabetic))); o.push_str(b(s.contains(char::is_numeric))); o.push_str(b(s.trim().ends_with(|c| c == 'g')));
    o.push_str(s.trim().strip_prefix(|c: char| c == 'a').unwrap()); o.push_str(&s.matches(char::is_alphabetic).count().to_string());
    o.push_str(&s.split_once(|c| c == ',' || c == ';').unwrap().1.len().to_string());
    o.push_str(&s.char_indices().filter(|(_, c)| c.is_ascii_punctuation()).map(|(i, _)| i.to_string()).collect::<Vec<_>>().join(","));
    o.push_str(&s.replace(char::is_whitespace, "_")); o.push_str(&s.splitn(2, |c| c == ',').last().unwrap().trim().to_string());
    o
}
pub const ALL: &[(&str, fn() -> String)] = &[
    ("t_char_ascii", t_char_ascii), ("t_eq_ignore_case", t_eq_ignore_case), ("t_split_at", t_split_at), ("t_splitn", t_splitn),
    ("t_option_misc", t_option_misc), ("t_result_misc", t_result_misc), ("t_iter_misc", t_iter_misc), ("t_vec_misc", t_vec_misc),
    ("t_path_misc", t_path_misc), ("t_str_misc", t_str_misc), ("t_collections", t_collections), ("t_int_misc", t_int_misc), ("t_misc2", t_misc2), ("t_patterns", t_patterns),
];
