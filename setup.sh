#!/bin/sh
# warms the caches under /verif/.cache (MIR dumps, native helper binaries); every check rebuilds what is stale by itself
cd "$(dirname "$0")" || exit 1
export CARGO_NET_OFFLINE=true PYTHONDONTWRITEBYTECODE=1
python3-vt - <<'PY'
import sys
import z3
from mirsym import build
print('z3', z3.get_version_string())
try:
    build.macros_mir(('serde-compat',))
    build.tsrs_mir(())
    build.serde_case_mir()
    build.corpus_mir(())
    build.tsrs_mir(('import-esm',))
    from props import c12
    build.tsrs_mir(c12.FEATS)
    for k in ('macros', 'macros-noserde', 'macros-nowarn', 'tsrs', 'tsrs-esm'):
        build.Native(k)
except build.BuildError as e:
    print('setup: build step failed (checks will retry):', str(e)[-2000:])
    sys.exit(1)
for w, s, c in build.BUILD_LOG:
    print(f'  {w}: {s:.1f}s' + (' (cached)' if c else ''))
PY
