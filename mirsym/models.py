"""std models for the prototype (strings as concrete-length lists of symbolic chars; ASCII domain)."""
import re
import z3
from .interp import RStr, Enum, Ref, ValRef, Iter, Panic, is_sym, bv, CH
from .mirparse import Unsupported

MODELS = []


def model(pat):
    def deco(f):
        MODELS.append((re.compile(pat), f))
        return f
    return deco


def rstr(m, v):
    if isinstance(v, ValRef):
        v = v.v
    if isinstance(v, Ref):
        v = m.read_place(v.frame, v.place)
    if isinstance(v, ValRef):
        v = v.v
    if not isinstance(v, RStr):
        raise Unsupported(f'expected string, got {v!r}')
    return v


def c_is_upper(c):
    if not is_sym(c):
        return chr(c).isupper() if c < 128 else None
    return z3.And(z3.UGE(c, 65), z3.ULE(c, 90))


def c_is_lower(c):
    return z3.And(z3.UGE(c, 97), z3.ULE(c, 122))


def c_to_ascii_lower(c):
    if not is_sym(c):
        return c + 32 if 65 <= c <= 90 else c
    return z3.If(c_is_upper(c), c + 32, c)


def c_to_ascii_upper(c):
    if not is_sym(c):
        return c - 32 if 97 <= c <= 122 else c
    return z3.If(c_is_lower(c), c - 32, c)


@model(r'^String::new$|^String::with_capacity$')
def _(m, callee, args):
    return RStr([])


@model(r'^String::push$')
def _(m, callee, args):
    r = args[0]
    s = rstr(m, r)
    m.write_place(r.frame, r.place, RStr(s.cs + [args[1]]))
    return ()


@model(r'^<String as (std::ops::)?Deref>::deref$')
def _(m, callee, args):
    return ValRef(rstr(m, args[0]))


@model(r'str::<impl str>::len$')
def _(m, callee, args):
    return len(rstr(m, args[0]).cs)


@model(r'str::<impl str>::chars$')
def _(m, callee, args):
    return Iter('chars', rstr(m, args[0]))


@model(r'str::<impl str>::char_indices$')
def _(m, callee, args):
    return Iter('char_indices', rstr(m, args[0]))


@model(r'^<(Chars|CharIndices)<\'_> as IntoIterator>::into_iter$')
def _(m, callee, args):
    return args[0]


@model(r'^<(Chars|CharIndices)<\'_> as Iterator>::next$')
def _(m, callee, args):
    r = args[0]
    it = m.read_place(r.frame, r.place)
    if it.pos >= len(it.s.cs):
        return Enum(0, [], 'None')
    c = it.s.cs[it.pos]
    m.write_place(r.frame, r.place, Iter(it.kind, it.s, it.pos + 1))
    if it.kind == 'chars':
        return Enum(1, [c], 'Some')
    return Enum(1, [(it.pos, c)], 'Some')   # ASCII domain: byte index == char index


@model(r'char::methods::<impl char>::is_uppercase$')
def _(m, callee, args):
    return c_is_upper(args[0])


@model(r'char::methods::<impl char>::to_ascii_lowercase$')
def _(m, callee, args):
    r = args[0]
    c = m.read_place(r.frame, r.place) if isinstance(r, Ref) else r
    return c_to_ascii_lower(c)


@model(r'char::methods::<impl char>::to_ascii_uppercase$')
def _(m, callee, args):
    r = args[0]
    c = m.read_place(r.frame, r.place) if isinstance(r, Ref) else r
    return c_to_ascii_upper(c)


@model(r'str::<impl str>::to_ascii_lowercase$|str::<impl str>::to_lowercase$')
def _(m, callee, args):
    return RStr([c_to_ascii_lower(c) for c in rstr(m, args[0]).cs])


@model(r'str::<impl str>::to_ascii_uppercase$|str::<impl str>::to_uppercase$')
def _(m, callee, args):
    return RStr([c_to_ascii_upper(c) for c in rstr(m, args[0]).cs])


@model(r'str::<impl str>::replace::<char>$')
def _(m, callee, args):
    s, frm, to = rstr(m, args[0]), args[1], rstr(m, args[2])
    out = []
    for c in s.cs:
        eq = (c == frm) if not (is_sym(c) or is_sym(frm)) else (bv(c, CH) == bv(frm, CH))
        if m.ctx.decide(eq):
            out.extend(to.cs)
        else:
            out.append(c)
    return RStr(out)


@model(r'^<(String|str) as (std::ops::)?Index<(std::ops::)?RangeTo<usize>>>::index$')
def _(m, callee, args):
    s = rstr(m, args[0])
    end = args[1].fields[0]
    if end > len(s.cs):
        raise Panic('byte index out of range')
    return ValRef(RStr(s.cs[:end]))


@model(r'^<(String|str) as (std::ops::)?Index<(std::ops::)?RangeFrom<usize>>>::index$')
def _(m, callee, args):
    s = rstr(m, args[0])
    start = args[1].fields[0]
    if start > len(s.cs):
        raise Panic('byte index out of range')
    return ValRef(RStr(s.cs[start:]))


@model(r'^<String as (std::ops::)?Add<&str>>::add$')
def _(m, callee, args):
    return RStr(rstr(m, args[0]).cs + rstr(m, args[1]).cs)


@model(r'^<str as ToOwned>::to_owned$')
def _(m, callee, args):
    return RStr(rstr(m, args[0]).cs)
