"""std models for the prototype (strings as concrete-length lists of symbolic chars; ASCII domain)."""
import re
import z3
from .interp import RStr, Enum, Ref, ValRef, Iter, Panic, is_sym, bv, CH
from .mirparse import Unsupported

MODELS = []


def model(pat):
    def deco(f):
        MODELS.append((re.compile(pat), f))
        return f
    return deco


def rstr(m, v):
    for _ in range(8):
        if isinstance(v, ValRef):
            v = v.v
        elif isinstance(v, Ref):
            v = m.read_place(v.frame, v.place)
        elif isinstance(v, Enum) and v.name in ('Borrowed', 'Owned') and v.fields:
            v = v.fields[0]          # Cow<str> / Cow<Path>
        else:
            break
    if not isinstance(v, RStr):
        raise Unsupported(f'expected string, got {v!r}')
    return v


from . import unicode as U


def c_is_upper(c):
    return U.pred('upper', c)


def c_to_ascii_lower(c):
    return U.to_ascii_lower(c)


def c_to_ascii_upper(c):
    return U.to_ascii_upper(c)


def blen(m, cs):
    """byte length of a char list (forks on utf-8 width of symbolic chars)"""
    return sum(U.utf8_len(m, c) for c in cs)


def cidx(m, cs, b, what='byte index'):
    """char index of byte offset b; Panic when b is out of range or not a char boundary"""
    if is_sym(b):
        raise Unsupported('symbolic byte offset')
    off = 0
    for k, c in enumerate(cs):
        if off == b:
            return k
        if off > b:
            break
        off += U.utf8_len(m, c)
    if off == b:
        return len(cs)
    raise Panic(f'{what} {b} is out of bounds or not a char boundary')


def charval(m, r):
    return m.read_place(r.frame, r.place) if isinstance(r, Ref) else (r.v if isinstance(r, ValRef) else r)


@model(r'^String::new$|^String::with_capacity$')
def _(m, callee, args):
    return RStr([])


@model(r'^String::push$')
def _(m, callee, args):
    r = args[0]
    s = rstr(m, r)
    m.write_place(r.frame, r.place, RStr(s.cs + [args[1]]))
    return ()


@model(r'^<String as (std::ops::)?Deref>::deref$')
def _(m, callee, args):
    return ValRef(rstr(m, args[0]))


@model(r'str::<impl str>::len$')
def _(m, callee, args):
    return blen(m, rstr(m, args[0]).cs)


@model(r'str::<impl str>::chars$')
def _(m, callee, args):
    return Iter('chars', rstr(m, args[0]))


@model(r'str::<impl str>::char_indices$')
def _(m, callee, args):
    return Iter('char_indices', rstr(m, args[0]))


@model(r'^<(Chars|CharIndices)<\'_> as IntoIterator>::into_iter$')
def _(m, callee, args):
    return args[0]


@model(r'^<(Chars|CharIndices)<\'_> as Iterator>::next$')
def _(m, callee, args):
    r = args[0]
    it = m.read_place(r.frame, r.place)
    if it.pos >= len(it.s.cs):
        return Enum(0, [], 'None')
    c = it.s.cs[it.pos]
    m.write_place(r.frame, r.place, Iter(it.kind, it.s, it.pos + 1))
    if it.kind == 'chars':
        return Enum(1, [c], 'Some')
    return Enum(1, [(blen(m, it.s.cs[:it.pos]), c)], 'Some')


@model(r'char::methods::<impl char>::is_(uppercase|lowercase|alphanumeric|numeric|alphabetic|whitespace)$')
def _(m, callee, args):
    kind = {'uppercase': 'upper', 'lowercase': 'lower', 'alphanumeric': 'alnum', 'numeric': 'numeric',
            'alphabetic': 'alpha', 'whitespace': 'ws'}[re.search(r'is_(\w+)$', callee).group(1)]
    return U.pred(kind, charval(m, args[0]))


@model(r'char::methods::<impl char>::to_ascii_lowercase$')
def _(m, callee, args):
    return c_to_ascii_lower(charval(m, args[0]))


@model(r'char::methods::<impl char>::to_ascii_uppercase$')
def _(m, callee, args):
    return c_to_ascii_upper(charval(m, args[0]))


@model(r'str::<impl str>::to_ascii_lowercase$')
def _(m, callee, args):
    return RStr([c_to_ascii_lower(c) for c in rstr(m, args[0]).cs])


@model(r'str::<impl str>::to_ascii_uppercase$')
def _(m, callee, args):
    return RStr([c_to_ascii_upper(c) for c in rstr(m, args[0]).cs])


@model(r'str::<impl str>::to_lowercase$')
def _(m, callee, args):
    # per-char Unicode mapping; the context-sensitive final sigma is outside the char domain (unicode.SAMPLE)
    out = []
    for c in rstr(m, args[0]).cs:
        out.extend(U.case_map(m, c, 'lower'))
    return RStr(out)


@model(r'str::<impl str>::to_uppercase$')
def _(m, callee, args):
    out = []
    for c in rstr(m, args[0]).cs:
        out.extend(U.case_map(m, c, 'upper'))
    return RStr(out)


@model(r'str::<impl str>::replace::<char>$')
def _(m, callee, args):
    s, frm, to = rstr(m, args[0]), args[1], rstr(m, args[2])
    out = []
    for c in s.cs:
        eq = (c == frm) if not (is_sym(c) or is_sym(frm)) else (bv(c, CH) == bv(frm, CH))
        if m.ctx.decide(eq):
            out.extend(to.cs)
        else:
            out.append(c)
    return RStr(out)


@model(r'^<(String|str) as (std::ops::)?Index<(std::ops::)?RangeTo<usize>>>::index$')
def _(m, callee, args):
    s = rstr(m, args[0])
    return ValRef(RStr(s.cs[:cidx(m, s.cs, args[1].fields[0], 'end byte index')]))


@model(r'^<(String|str) as (std::ops::)?Index<(std::ops::)?RangeFrom<usize>>>::index$')
def _(m, callee, args):
    s = rstr(m, args[0])
    return ValRef(RStr(s.cs[cidx(m, s.cs, args[1].fields[0], 'start byte index'):]))


@model(r'^<(String|str) as (std::ops::)?Index<(std::ops::)?Range<usize>>>::index$')
def _(m, callee, args):
    s = rstr(m, args[0])
    a, b = args[1].fields[0], args[1].fields[1]
    ia, ib = cidx(m, s.cs, a, 'start byte index'), cidx(m, s.cs, b, 'end byte index')
    if ia > ib:
        raise Panic('slice index starts after end')
    return ValRef(RStr(s.cs[ia:ib]))


@model(r'^<String as (std::ops::)?Add<&str>>::add$')
def _(m, callee, args):
    return RStr(rstr(m, args[0]).cs + rstr(m, args[1]).cs)


@model(r'^<str as ToOwned>::to_owned$')
def _(m, callee, args):
    return RStr(rstr(m, args[0]).cs)


@model(r'^<char as ToString>::to_string$')
def _(m, callee, args):
    return RStr([charval(m, args[0])])


@model(r"^Chars::<'_>::as_str$")
def _(m, callee, args):
    r = args[0]
    it = m.read_place(r.frame, r.place) if isinstance(r, Ref) else r
    return ValRef(RStr(it.s.cs[it.pos:]))


class Opaque:
    """a value the code only passes around (syn::Type, Expr, Span, TokenStream ...): identity only"""
    n = 0

    def __init__(self, label):
        Opaque.n += 1
        self.label = label

    def __repr__(self):
        return f'Opaque({self.label})'


@model(r'^<.* as Clone>::clone$')
def _(m, callee, args):
    v = args[0]
    while isinstance(v, (Ref, ValRef)):
        v = m.read_place(v.frame, v.place) if isinstance(v, Ref) else v.v
    return v


class StrSliceMut:
    """&mut str pointing into a String: (reference to the owner, char range)"""
    __slots__ = ('owner', 'a', 'b')

    def __init__(self, owner, a, b):
        self.owner, self.a, self.b = owner, a, b


_rstr_prev = rstr


def rstr(m, v):      # noqa: F811
    if isinstance(v, StrSliceMut):
        s = _rstr_prev(m, v.owner)
        return RStr(s.cs[v.a:v.b])
    return _rstr_prev(m, v)


@model(r'^<(String|str) as (std::ops::)?IndexMut<(std::ops::)?Range(To|From|Full)?<usize>>>::index_mut$')
def _(m, callee, args):
    s = _rstr_prev(m, args[0])
    rng = args[1]
    if 'RangeTo<' in callee:
        a, b = 0, cidx(m, s.cs, rng.fields[0], 'end byte index')
    elif 'RangeFrom<' in callee:
        a, b = cidx(m, s.cs, rng.fields[0], 'start byte index'), len(s.cs)
    elif 'RangeFull' in callee:
        a, b = 0, len(s.cs)
    else:
        a, b = cidx(m, s.cs, rng.fields[0], 'start byte index'), cidx(m, s.cs, rng.fields[1], 'end byte index')
        if a > b:
            raise Panic('slice index starts after end')
    return StrSliceMut(args[0], a, b)


@model(r'str::<impl str>::make_ascii_(lower|upper)case$|^String::make_ascii_(lower|upper)case$')
def _(m, callee, args):
    f = c_to_ascii_lower if 'lowercase' in callee else c_to_ascii_upper
    t = args[0]
    if isinstance(t, StrSliceMut):
        s = _rstr_prev(m, t.owner)
        new = RStr(s.cs[:t.a] + [f(c) for c in s.cs[t.a:t.b]] + s.cs[t.b:])
        r = t.owner
    else:
        s = _rstr_prev(m, t)
        new = RStr([f(c) for c in s.cs])
        r = t
    if not isinstance(r, Ref):
        raise Unsupported('in-place case change through a non-reference')
    m.write_place(r.frame, r.place, new)
    return ()
