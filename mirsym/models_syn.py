"""Token-level model of syn::parse::ParseBuffer / Cursor for the attribute parsers of ts-rs-macros.

A buffer is a flat list of token slots. Per slot the *kind* (ident, `=`, `,`, string literal, integer literal, parenthesised group,
other punctuation) and, for identifiers and string literals, the *text* are solver variables: the text of slot i is the atom
SymStr(i) whose equality with a constant `"rename"` is the z3 condition `text_i == index("rename")` over a fixed vocabulary (all keys
of all tables, the eight rename_all values, and one value standing for "anything else"). The real parsers then fork exactly
where they compare.
"""
import re

import z3

from .interp import RStr, Enum, Struct, Ref, ValRef, Panic, Closure, is_sym, bv, CH
from .mirparse import Unsupported
from .models import MODELS, model, rstr, Opaque
from .models2 import deref_all, RVec
from . import models2, models3
from .models3 import OK, ERR, NONE, some, HMap, _prepend, disc_is

KINDS = ['ident', 'eq', 'comma', 'litstr', 'litint', 'group', 'punct']


class SymStr:
    """text atom: index into VOCAB (len(VOCAB) = some other string)"""
    __slots__ = ('var', 'label')

    def __init__(self, label):
        self.label = label
        self.var = z3.Int(label)

    def __repr__(self):
        return f'${self.label}'

    def __eq__(self, o):
        return isinstance(o, SymStr) and o.label == self.label

    def __hash__(self):
        return hash(('SymStr', self.label))


VOCAB = []


def set_vocab(words):
    VOCAB[:] = list(dict.fromkeys(words))


class PBuf:
    def __init__(self, label, n, kinds=None, texts=None, allowed=None):
        """n slots; kinds[i] concrete kind or None (= symbolic); texts[i] concrete python str or None (= symbolic atom);
        allowed[i]: the kinds a symbolic slot ranges over (default: all)"""
        self.label = label
        self.n = n
        self.allowed = list(allowed) if allowed else [KINDS] * n
        self.kinds = list(kinds) if kinds else [None] * n
        self.texts = list(texts) if texts else [None] * n
        self.kvars = [z3.Int(f'{label}.kind{i}') for i in range(n)]
        self.atoms = [SymStr(f'{label}.text{i}') for i in range(n)]
        self.pos = 0

    def kind(self, m, i):
        if self.kinds[i] is None:
            al = self.allowed[i]
            self.kinds[i] = al[m.ctx.pick(self.kvars[i], len(al))] if len(al) > 1 else al[0]
        return self.kinds[i]

    def text(self, i):
        t = self.texts[i]
        return RStr([ord(c) for c in t]) if t is not None else RStr([self.atoms[i]])

    def domain(self):
        cons = []
        for i in range(self.n):
            cons += [self.atoms[i].var >= 0, self.atoms[i].var <= len(VOCAB)]
        return cons


def synerr(msg):
    return ('synerr', msg)


def msg_text(m, v):
    v = deref_all(m, v)
    if isinstance(v, RStr):
        return ''.join(chr(c) if isinstance(c, int) else repr(c) for c in v.cs)
    return str(v)


def buf(m, v):
    b = deref_all(m, v)
    if not isinstance(b, PBuf):
        raise Unsupported(f'ParseBuffer expected, got {b!r}')
    return b


# string equality on atoms: extends models2.str_eq
_str_eq_prev = models2.str_eq


def str_eq(m, a, b):
    sa = len(a.cs) == 1 and isinstance(a.cs[0], SymStr)
    sb = len(b.cs) == 1 and isinstance(b.cs[0], SymStr)
    if sa and sb:
        if a.cs[0] == b.cs[0]:
            return True
        return m.ctx.decide(z3.And(a.cs[0].var == b.cs[0].var, a.cs[0].var < len(VOCAB)))
    if sa or sb:
        atom, other = (a.cs[0], b) if sa else (b.cs[0], a)
        if any(not isinstance(c, int) for c in other.cs):
            raise Unsupported('comparison of a text atom with a symbolic string')
        word = ''.join(chr(c) for c in other.cs)
        if word not in VOCAB:
            return False
        return m.ctx.decide(atom.var == VOCAB.index(word))
    return _str_eq_prev(m, a, b)


models2.str_eq = str_eq
models3.str_eq = str_eq


def _str_eq_model(m, callee, args):
    return str_eq(m, rstr(m, args[0]), rstr(m, args[1]))


_prepend(r'^<str as PartialEq>::eq$', _str_eq_model)


RUST_KEYWORDS = ['as', 'break', 'const', 'continue', 'crate', 'else', 'enum', 'extern', 'false', 'fn', 'for', 'if', 'impl', 'in', 'let', 'loop',
                 'match', 'mod', 'move', 'mut', 'pub', 'ref', 'return', 'self', 'Self', 'static', 'struct', 'super', 'trait', 'true', 'type',
                 'unsafe', 'use', 'where', 'while', 'async', 'await', 'dyn', 'abstract', 'become', 'box', 'do', 'final', 'macro', 'override',
                 'priv', 'typeof', 'unsized', 'virtual', 'yield', 'try']


def _parse_ident(m, callee, args):
    """`input.call(IdentExt::parse_any)` accepts every identifier-like token; `input.parse::<Ident>()` rejects Rust keywords
    (`type`, `crate`, `as`, ..) -- the difference matters for attribute keys"""
    b = buf(m, args[0])
    if b.pos < b.n and b.kind(m, b.pos) == 'ident':
        if '::call::<' not in callee:
            t = b.texts[b.pos]
            if t is not None:
                if t in RUST_KEYWORDS:
                    return ERR(synerr('expected identifier, found keyword'))
            else:
                for w in VOCAB:
                    if w in RUST_KEYWORDS and m.ctx.decide(b.atoms[b.pos].var == VOCAB.index(w)):
                        return ERR(synerr('expected identifier, found keyword'))
        b.pos += 1
        return OK(('ident', b, b.pos - 1))
    return ERR(synerr('expected identifier'))


_prepend(r"^ParseBuffer::<'_>::call::<proc_macro2::Ident>$|^<proc_macro2::Ident as Parse>::parse$|^ParseBuffer::<'_>::parse::<proc_macro2::Ident>$", _parse_ident)


def _ident_to_string(m, callee, args):
    t = deref_all(m, args[0])
    return t[1].text(t[2])


_prepend(r'^<proc_macro2::Ident as ToString>::to_string$', _ident_to_string)


def _is_empty(m, callee, args):
    b = buf(m, args[0])
    return b.pos >= b.n


_prepend(r"^ParseBuffer::<'_>::is_empty$", _is_empty)


def _parse_punct(m, callee, args):
    b = buf(m, args[0])
    want = 'comma' if 'Comma' in callee else 'eq'
    if b.pos < b.n and b.kind(m, b.pos) == want:
        b.pos += 1
        return OK(('tok', want))
    return ERR(synerr('expected `,`' if want == 'comma' else 'expected `=`'))


_prepend(r"^ParseBuffer::<'_>::parse::<syn::token::(Comma|Eq)>$", _parse_punct)


def _peek(m, callee, args):
    b = buf(m, args[0])
    want = 'group' if 'token::Paren' in callee else ('eq' if 'token::Eq' in callee else ('comma' if 'token::Comma' in callee else None))
    if want is None:
        raise Unsupported('peek of ' + callee)
    return b.pos < b.n and b.kind(m, b.pos) == want


_prepend(r"^ParseBuffer::<'_>::peek::<", _peek)


def _parse_lit(m, callee, args):
    b = buf(m, args[0])
    if b.pos < b.n:
        k = b.kind(m, b.pos)
        if k == 'litstr':
            b.pos += 1
            return OK(Enum(0, [('litstr', b, b.pos - 1)], 'Str'))
        if k == 'litint':
            b.pos += 1
            return OK(Enum(5, [('litint', b, b.pos - 1)], 'Int'))
    return ERR(synerr('expected literal'))


_prepend(r'^<syn::Lit as Parse>::parse$', _parse_lit)


def _lit_value(m, callee, args):
    t = deref_all(m, args[0])
    return t[1].text(t[2])


_prepend(r'^LitStr::value$', _lit_value)


def _parse_expr(m, callee, args):
    # model: an expression is one token tree (literal, identifier or group)
    b = buf(m, args[0])
    if b.pos < b.n and b.kind(m, b.pos) in ('litstr', 'litint', 'ident', 'group'):
        b.pos += 1
        return OK(('expr', b.label, b.pos - 1))
    return ERR(synerr('expected expression'))


_prepend(r'^<syn::Expr as Parse>::parse$', _parse_expr)


def _litstr_parse(m, callee, args):
    t = deref_all(m, args[0])
    okv = z3.Bool(f'{t[1].label}.lit{t[2]}.parses')
    if m.ctx.decide(okv):
        return OK(Opaque(f'parsed({t[1].label}.{t[2]})'))
    return ERR(synerr('cannot parse string literal'))


_prepend(r'^LitStr::parse::<|^LitStr::parse_with::<', _litstr_parse)


def _parse_type(m, callee, args):
    b = buf(m, args[0])
    if b.pos < b.n and b.kind(m, b.pos) in ('ident', 'group'):
        b.pos += 1
        return OK(Opaque(f'type({b.label}.{b.pos - 1})'))
    return ERR(synerr('expected type'))


_prepend(r"^ParseBuffer::<'_>::parse::<syn::Type>$", _parse_type)


def _punctuated_iter(m, callee, args):
    v = deref_all(m, args[0])
    return models3.PyIter('list', items=[v] if not isinstance(v, list) else v, pos=0)


_prepend(r'^<syn::punctuated::Punctuated<.*> as IntoIterator>::into_iter$', _punctuated_iter)


# ---- cursor level (skip_until_next_comma runs its real MIR over these)
def _step(m, callee, args):
    b = buf(m, args[0])
    r = m.call_closure(args[1], [('cursor', b, b.pos)])
    if disc_is(m, r, 1):
        return ERR(r.fields[0])
    val, cur = r.fields[0]
    b.pos = cur[2]
    return OK(val)


_prepend(r"^ParseBuffer::<'_>::step::<", _step)


@model(r"^<StepCursor<'_, '_> as (std::ops::)?Deref>::deref$")
def _(m, callee, args):
    return ValRef(deref_all(m, args[0]))


@model(r"^syn::buffer::Cursor::<'_>::token_tree$")
def _(m, callee, args):
    c = deref_all(m, args[0])
    _, b, pos = c
    if pos >= b.n:
        return NONE()
    k = b.kind(m, pos)
    disc = {'group': 0, 'ident': 1, 'eq': 2, 'comma': 2, 'punct': 2, 'litstr': 3, 'litint': 3}[k]
    return some((Enum(disc, [('tt', b, pos)], 'TokenTree'), ('cursor', b, pos + 1)))


@model(r'^proc_macro2::Punct::as_char$')
def _(m, callee, args):
    t = deref_all(m, args[0])
    return {'comma': ord(','), 'eq': ord('=')}.get(t[1].kinds[t[2]], ord('#'))


@model(r'^proc_macro2::TokenStream::new$')
def _(m, callee, args):
    return ('tokens',)


@model(r' as quote::ToTokens>::to_tokens$|^quote::__private::')
def _(m, callee, args):
    return ()


@model(r"core::fmt::rt::Argument::<'_>::new_display::<(proc_macro2::TokenStream|&proc_macro2::TokenStream)>$")
def _(m, callee, args):
    return ('fmtarg', RStr([ord('~')]))


@model(r"^ParseBuffer::<'_>::span$|^LitStr::span$|lit::value::<impl syn::Lit>::span$|^proc_macro2::Ident::span$")
def _(m, callee, args):
    return ('span',)


def _err_new(m, callee, args):
    return synerr(msg_text(m, args[1]))


_prepend(r'^syn::Error::new::<|^syn::Error::new_spanned::<', _err_new)


@model(r'^Result::<proc_macro2::TokenStream, syn::Error>::unwrap$')
def _(m, callee, args):
    if disc_is(m, args[0], 1):
        raise Panic('called `Result::unwrap()` on an `Err` value')
    return args[0].fields[0]


@model(r'^<\{closure@.*\} as (std::ops::)?Fn(Mut|Once)?<.*>>::call(_mut|_once)?$')
def _(m, callee, args):
    tup = args[1]
    return m.call_closure(args[0], list(tup) if isinstance(tup, tuple) else [tup])


def _punctuated_is_empty(m, callee, args):
    """`fields.unnamed.is_empty()` / `.len()` on a lazily modelled syn::Punctuated: a solver variable per object"""
    v = deref_all(m, args[0])
    label = getattr(v, 'label', None) or 'punctuated'
    if callee.endswith('is_empty'):
        return z3.Bool(f'{label}.is_empty')
    raise Unsupported('Punctuated::len of a lazily modelled list')


_prepend(r'^(syn::punctuated::)?Punctuated::<.*>::(is_empty|len)$', _punctuated_is_empty)
