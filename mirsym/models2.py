"""prototype models: Path/PathBuf/Components, Vec, Option/Result plumbing, fmt::Arguments"""
import re
import z3
from .interp import RStr, Enum, Struct, Ref, ValRef, Iter, Panic, is_sym, bv, CH
from .mirparse import Unsupported
from .models import MODELS, model, rstr

SLASH, DOT = 47, 46


class RVec:
    __slots__ = ('items',)

    def __init__(self, items):
        self.items = list(items)

    def __repr__(self):
        return f'RVec({self.items})'


class PyIter:
    """generic iterator model: kind in slice/map/components/byref"""
    def __init__(self, kind, **kw):
        self.kind = kind
        self.__dict__.update(kw)


def deref_all(m, v):
    while isinstance(v, (Ref, ValRef)):
        v = m.read_place(v.frame, v.place) if isinstance(v, Ref) else v.v
    return v


def ceq(m, c, k):
    """decide whether char c equals constant k (forks when symbolic)"""
    if not is_sym(c):
        return c == k
    return m.ctx.decide(c == z3.BitVecVal(k, CH))


def str_eq(m, a, b):
    if len(a.cs) != len(b.cs):
        return False
    for x, y in zip(a.cs, b.cs):
        if not is_sym(x) and not is_sym(y):
            if x != y:
                return False
        elif not m.ctx.decide(bv(x, CH) == bv(y, CH)):
            return False
    return True


# ------------------------------------------------------------ Path model (unix)
def components(m, s):
    """std::path::Components semantics on unix, as a list of Component enums"""
    cs = s.cs
    comps = []
    i, n = 0, len(cs)
    rooted = n > 0 and ceq(m, cs[0], SLASH)
    if rooted:
        comps.append(Enum(1, [], 'RootDir'))
    parts, cur = [], []
    for c in cs:
        if ceq(m, c, SLASH):
            parts.append(cur)
            cur = []
        else:
            cur.append(c)
    parts.append(cur)
    first = True
    for idx, part in enumerate(parts):
        if not part:
            continue
        if len(part) == 1 and ceq(m, part[0], DOT):
            if first and not rooted:
                comps.append(Enum(2, [], 'CurDir'))
            first = False
            continue
        if len(part) == 2 and ceq(m, part[0], DOT) and ceq(m, part[1], DOT):
            comps.append(Enum(3, [], 'ParentDir'))
        else:
            comps.append(Enum(4, [ValRef(RStr(part))], 'Normal'))
        first = False
    return comps


def comp_str(c):
    return {1: [SLASH], 2: [DOT], 3: [DOT, DOT]}.get(c.disc) if c.disc != 4 else c.fields[0].v.cs


def path_push(m, buf, p):
    """PathBuf::push on unix"""
    if p and ceq(m, p[0], SLASH):
        return list(p)
    out = list(buf)
    if out and not ceq(m, out[-1], SLASH):
        out.append(SLASH)
    return out + list(p)


@model(r'^current_dir$')
def _(m, callee, args):
    return Enum(0, [RStr(m.env['cwd'])], 'Ok')


@model(r'^<(PathBuf|String|Vec<.*>|Cow<.*>) as (std::ops::)?Deref>::deref$')
def _(m, callee, args):
    v = deref_all(m, args[0])
    if isinstance(v, Enum) and v.name in ('Borrowed', 'Owned'):
        v = deref_all(m, v.fields[0])
    return ValRef(v)


@model(r'^<.* as AsRef<Path>>::as_ref$|^<.* as AsRef<OsStr>>::as_ref$|^<.* as AsRef<str>>::as_ref$')
def _(m, callee, args):
    return ValRef(rstr(m, args[0]))


@model(r'^Path::join::<')
def _(m, callee, args):
    return RStr(path_push(m, rstr(m, args[0]).cs, deref_all(m, args[1]).cs))


@model(r'^Path::components$')
def _(m, callee, args):
    return PyIter('components', items=components(m, rstr(m, args[0])), pos=0)


@model(r'^<Components<\'_> as IntoIterator>::into_iter$')
def _(m, callee, args):
    return args[0]


@model(r'^<Components<\'_> as Iterator>::by_ref$')
def _(m, callee, args):
    return args[0]


def iter_next(m, itref):
    it = deref_all(m, itref) if not isinstance(itref, PyIter) else itref
    if it.kind in ('components', 'slice'):
        if it.pos >= len(it.items):
            return None
        v = it.items[it.pos]
        it.pos += 1          # iterator objects are shared mutable cells (never copied by the kernels)
        return (ValRef(v) if it.kind == 'slice' else v)
    if it.kind == 'map':
        v = iter_next(m, it.inner)
        if v is None:
            return None
        return m.call_closure(it.closure, [v])
    raise Unsupported('iter kind ' + it.kind)


@model(r'^<Components<\'_> as Iterator>::next$')
def _(m, callee, args):
    v = iter_next(m, args[0])
    return Enum(0, [], 'None') if v is None else Enum(1, [v], 'Some')


@model(r'^Vec::<.*>::new$')
def _(m, callee, args):
    return RVec([])


def vec_mut(m, r):
    v = m.read_place(r.frame, r.place)
    return v


@model(r'^Vec::<.*>::push$')
def _(m, callee, args):
    r = args[0]
    v = vec_mut(m, r)
    m.write_place(r.frame, r.place, RVec(v.items + [args[1]]))
    return ()


@model(r'^Vec::<.*>::pop$')
def _(m, callee, args):
    r = args[0]
    v = vec_mut(m, r)
    if not v.items:
        return Enum(0, [], 'None')
    m.write_place(r.frame, r.place, RVec(v.items[:-1]))
    return Enum(1, [v.items[-1]], 'Some')


@model(r'^Vec::<.*>::is_empty$')
def _(m, callee, args):
    return len(deref_all(m, args[0]).items) == 0


@model(r'^<Vec<.*> as Extend<.*>>::extend::<&mut Components')
def _(m, callee, args):
    r = args[0]
    v = vec_mut(m, r)
    items = list(v.items)
    while True:
        x = iter_next(m, args[1])
        if x is None:
            break
        items.append(x)
    m.write_place(r.frame, r.place, RVec(items))
    return ()


@model(r'slice::<impl \[.*\]>::iter$')
def _(m, callee, args):
    v = deref_all(m, args[0])
    return PyIter('slice', items=v.items if hasattr(v, 'items') else list(v), pos=0)


@model(r'^<std::slice::Iter<.*> as Iterator>::map::<')
def _(m, callee, args):
    return PyIter('map', inner=args[0], closure=args[1])


@model(r' as Iterator>::collect::<PathBuf>$')
def _(m, callee, args):
    buf = []
    while True:
        x = iter_next(m, args[0])
        if x is None:
            break
        x = deref_all(m, x)
        buf = path_push(m, buf, comp_str(x) if isinstance(x, Enum) else x.cs)
    return RStr(buf)


@model(r'^Component::<\'_>::as_os_str$')
def _(m, callee, args):
    return ValRef(RStr(comp_str(deref_all(m, args[0]))))


@model(r'^<Component<\'_> as PartialEq>::eq$')
def _(m, callee, args):
    a, b = deref_all(m, args[0]), deref_all(m, args[1])
    if a.disc != b.disc:
        return False
    if a.disc == 4:
        return str_eq(m, a.fields[0].v, b.fields[0].v)
    return True


@model(r'^<PathBuf as From<&str>>::from$|^<PathBuf as From<String>>::from$')
def _(m, callee, args):
    return RStr(deref_all(m, args[0]).cs)


@model(r'^Path::parent$')
def _(m, callee, args):
    s = rstr(m, args[0])
    comps = components(m, s)
    if not comps or comps[-1].disc == 1:
        return Enum(0, [], 'None')
    # std: parent = path up to (not including) the last component, re-assembled lexically
    buf = []
    for c in comps[:-1]:
        buf = path_push(m, buf, comp_str(c))
    return Enum(1, [ValRef(RStr(buf))], 'Some')


@model(r'^Path::to_string_lossy$')
def _(m, callee, args):
    return Enum(0, [ValRef(rstr(m, args[0]))], 'Borrowed')


@model(r'^<Cow<\'_, str> as Into<String>>::into$')
def _(m, callee, args):
    return RStr(deref_all(m, args[0].fields[0]).cs)


# ------------------------------------------------------------ Option / Result plumbing
@model(r'^Option::<.*>::ok_or::<')
def _(m, callee, args):
    o = args[0]
    return Enum(0, [o.fields[0]], 'Ok') if o.disc == 1 else Enum(1, [args[1]], 'Err')


@model(r'^Option::<.*>::unwrap$')
def _(m, callee, args):
    if args[0].disc == 0:
        raise Panic('called `Option::unwrap()` on a `None` value')
    return args[0].fields[0]


@model(r'^<Result<.*> as (std::ops::)?Try>::branch$')
def _(m, callee, args):
    r = args[0]
    if r.disc == 0:
        return Enum(0, [r.fields[0]], 'Continue')
    return Enum(1, [Enum(1, [r.fields[0]], 'Err')], 'Break')


@model(r'^<Result<.*> as FromResidual<Result<Infallible, (.*)>>>::from_residual$')
def _(m, callee, args):
    e = args[0].fields[0]
    if 'std::io::Error' in callee:
        e = Enum(1, [e], 'Io')
    return Enum(1, [e], 'Err')


# ------------------------------------------------------------ formatting
@model(r'^core::fmt::rt::Argument::<\'_>::new_display::<')
def _(m, callee, args):
    v = deref_all(m, args[0])
    if isinstance(v, Enum) and v.name in ('Borrowed', 'Owned'):
        v = deref_all(m, v.fields[0])
    if isinstance(v, tuple) and len(v) == 2 and v[0] == 'display':       # std::path::Display
        v = v[1]
    t = re.search(r'new_display::<&*(.*)>$', callee)
    if t and re.fullmatch(r'(usize|u8|u16|u32|u64|u128|isize|i8|i16|i32|i64|i128)', t.group(1)):
        if is_sym(v):
            raise Unsupported('Display of a symbolic integer')
        if t.group(1).startswith('i'):
            w_ = 64 if t.group(1) == 'isize' else int(t.group(1)[1:])
            if v >= 1 << (w_ - 1):
                v -= 1 << w_      # integers are kept modulo 2^w
        return ('fmtarg', RStr([ord(c) for c in str(v)]), 'num', '')
    elif t and t.group(1) == 'bool':
        if is_sym(v):
            raise Unsupported('Display of a symbolic bool')
        v = RStr([ord(c) for c in ('true' if v else 'false')])
    return ('fmtarg', v)


@model(r'^Arguments::<\'_>::new::<')
def _(m, callee, args):
    tmpl = args[0]
    fa = deref_all(m, args[1])
    return ('fmtargs', tmpl, list(fa))


def render_fmt(m, a):
    """text of a core::fmt::Arguments value"""
    if a[0] == 'fmtargs_str':
        return list(a[1].cs)
    _, tmpl, fa = a
    out, i, argi = [], 0, 0
    b = tmpl
    while i < len(b):
        t = b[i]
        if t == 0:
            break
        if t < 0x80:
            out.extend(b[i + 1:i + 1 + t])
            i += 1 + t
        elif t == 0x80:
            n_ = b[i + 1] | (b[i + 2] << 8)          # long literal piece: 0x80, u16 length (little endian), bytes
            out.extend(b[i + 3:i + 3 + n_])
            i += 3 + n_
        elif t >= 0xC0:
            # placeholder; option fields follow the first byte when its low bits are set (library/core/src/fmt/mod.rs)
            flags, width, prec = 0x20 | (3 << 29), None, None
            i += 1
            if t & 1:
                flags = b[i] | (b[i + 1] << 8) | (b[i + 2] << 16) | (b[i + 3] << 24)
                i += 4
            if t & 2:
                width = b[i] | (b[i + 1] << 8)
                i += 2
            if t & 4:
                prec = b[i] | (b[i + 1] << 8)
                i += 2
            if t & 8:
                argi = b[i] | (b[i + 1] << 8)
                i += 2
            if t & 16 or t & 32:
                raise Unsupported('dynamic width / precision in a format string')
            arg = fa[argi]
            x = arg[1]
            numeric = len(arg) > 2 and arg[2] == 'num'
            if isinstance(x, tuple) and x and x[0] == 'tokens':
                piece = [ord('~')]           # Display of a TokenStream: only ever printed into a warning
            elif isinstance(x, RStr):
                piece = list(x.cs)
            elif isinstance(x, int) or is_sym(x):
                piece = [x]              # char
            else:
                raise Unsupported(f'Display of {x!r}')
            prefix = [ord(c) for c in arg[3]] if numeric and len(arg) > 3 and (flags & (1 << 23)) else []
            if prec is not None and not numeric:
                piece = piece[:prec]
            total = len(prefix) + len(piece)
            if width is not None and total < width:
                pad = width - total
                fill, align = flags & 0x1FFFFF, (flags >> 29) & 3
                if numeric and flags & (1 << 24):
                    sign = piece[:1] if piece[:1] == [45] else []
                    piece = sign + prefix + [48] * pad + piece[len(sign):]
                    prefix = []
                else:
                    if align == 3:
                        align = 1 if numeric else 0
                    lp = {0: 0, 1: pad, 2: pad // 2}[align]
                    piece = [fill] * lp + prefix + piece + [fill] * (pad - lp)
                    prefix = []
            out.extend(prefix + piece)
            argi += 1
        else:
            raise Unsupported(f'fmt template opcode {t:#x}')
    return out


@model(r'^(std::fmt::|alloc::fmt::)?format$')
def _(m, callee, args):
    return RStr(render_fmt(m, args[0]))


@model(r'^<String as (std::fmt::)?Write>::write_fmt$')
def _(m, callee, args):
    r = args[0]
    s = rstr(m, r)
    m.write_place(r.frame, r.place, RStr(s.cs + render_fmt(m, args[1])))
    return Enum(0, [()], 'Ok')


@model(r'^(std::hint::|core::hint::)?must_use::<String>$')
def _(m, callee, args):
    return args[0]


@model(r'str::<impl str>::trim_end_matches::<&str>$')
def _(m, callee, args):
    s, pat = rstr(m, args[0]).cs, rstr(m, args[1]).cs
    cs = list(s)
    while pat and len(cs) >= len(pat) and str_eq(m, RStr(cs[-len(pat):]), RStr(pat)):
        cs = cs[:-len(pat)]
    return ValRef(RStr(cs))


@model(r"^Arguments::<'_>::from_str_nonconst$|^Arguments::<'_>::from_str$")
def _(m, callee, args):
    return ('fmtargs_str', deref_all(m, args[0]))


@model(r'^panic_fmt$|^core::panicking::panic')
def _(m, callee, args):
    a = args[0]
    msg = ''.join(chr(c) for c in a[1].cs) if isinstance(a, tuple) and a[0] == 'fmtargs_str' else 'panic'
    raise Panic(msg)


@model(r'slice::<impl \[.*\]>::last$')
def _(m, callee, args):
    v = deref_all(m, args[0])
    items = v.items if isinstance(v, RVec) else v
    if not items:
        return Enum(0, [], 'None')
    return Enum(1, [ValRef(items[-1])], 'Some')


@model(r'slice::<impl \[.*\]>::first$')
def _(m, callee, args):
    v = deref_all(m, args[0])
    items = v.items if isinstance(v, RVec) else v
    if not items:
        return Enum(0, [], 'None')
    return Enum(1, [ValRef(items[0])], 'Some')


@model(r'slice::<impl \[.*\]>::(len|is_empty)$|^Vec::<.*>::len$')
def _(m, callee, args):
    v = deref_all(m, args[0])
    items = v.items if isinstance(v, RVec) else v
    return (len(items) == 0) if callee.endswith('is_empty') else len(items)


@model(r'^(std::env::)?var::<')
def _(m, callee, args):
    name = ''.join(chr(c) for c in deref_all(m, args[0]).cs)
    v = m.env.get('env', {}).get(name)
    if v is None:
        return Enum(1, [('varerror', 'NotPresent')], 'Err')
    return Enum(0, [RStr(list(v))], 'Ok')


@model(r'^Path::new::<')
def _(m, callee, args):
    return ValRef(deref_all(m, args[0]))


@model(r'^<Cow<.*> as (std::ops::)?Deref>::deref$')
def _(m, callee, args):
    v = deref_all(m, args[0])
    if isinstance(v, Enum) and v.name in ('Borrowed', 'Owned'):
        v = deref_all(m, v.fields[0])
    return ValRef(v)


@model(r'^Path::file_name$')
def _(m, callee, args):
    comps = components(m, rstr(m, args[0]))
    if not comps or comps[-1].disc != 4:
        return Enum(0, [], 'None')
    return Enum(1, [comps[-1].fields[0]], 'Some')


@model(r'^(std::ffi::)?OsStr::to_str$|^Path::to_str$')
def _(m, callee, args):
    return Enum(1, [ValRef(rstr(m, args[0]))], 'Some')


@model(r'^<(String|PathBuf|str|Path|OsStr|OsString) as PartialEq(<.*>)?>::(eq|ne)$|^<&(str|String) as PartialEq<.*>>::(eq|ne)$')
def _(m, callee, args):
    same = str_eq(m, rstr(m, args[0]), rstr(m, args[1]))
    return same if callee.endswith('eq') else not same
