"""Character predicates: exact closed forms on ASCII; outside ASCII a finite sample set whose properties are read
from the real Rust std (native helper `chars`) at run time -- no table is guessed."""
import z3

from .interp import is_sym, CH
from .mirparse import Unsupported

# sample of non-ASCII scalars: lower/upper letters, a letter without case, title case, digits of other scripts,
# superscript (numeric, not a decimal digit), letters whose case mapping changes length, a combining mark, CJK,
# a modifier letter, a 4-byte scalar, a whitespace, a symbol
SAMPLE = [0xE9, 0xC9, 0xDF, 0x1C5, 0xB2, 0x131, 0x130, 0x4E2D, 0x2B0, 0xA673, 0x660, 0x2167, 0x1D400, 0x10400, 0xA0,
          0x2028, 0xD7, 0x24B6]

TABLE = {}     # cp -> dict(upper, lower, alnum, numeric, ws, alpha, to_lower [cps], to_upper [cps], len)


def load(native_macros, extra=()):
    cps = sorted(set(SAMPLE) | set(extra))
    r = native_macros.one('chars', *[str(c) for c in cps])
    assert r[0] == 'ok', r
    for ent in r[1:]:
        f = ent.split(':')
        TABLE[int(f[0])] = dict(upper=f[1] == '1', lower=f[2] == '1', alnum=f[3] == '1', numeric=f[4] == '1', ws=f[5] == '1',
                                alpha=f[6] == '1', to_lower=[int(x, 16) for x in f[7].split()],
                                to_upper=[int(x, 16) for x in f[8].split()], len=int(f[9]))


def ascii_or_sample(c, sample=None):
    """domain constraint for a symbolic char"""
    sample = list(TABLE) if sample is None else sample
    return z3.Or([z3.ULT(c, 128)] + [c == z3.BitVecVal(s, CH) for s in sample])


def _ascii_pred(kind, c):
    dig = z3.And(z3.UGE(c, 48), z3.ULE(c, 57))
    up = z3.And(z3.UGE(c, 65), z3.ULE(c, 90))
    lo = z3.And(z3.UGE(c, 97), z3.ULE(c, 122))
    if kind == 'upper':
        return up
    if kind == 'lower':
        return lo
    if kind == 'alpha':
        return z3.Or(up, lo)
    if kind == 'numeric':
        return dig
    if kind == 'alnum':
        return z3.Or(up, lo, dig)
    if kind == 'ws':
        return z3.Or(c == 32, z3.And(z3.UGE(c, 9), z3.ULE(c, 13)))
    raise Unsupported('char predicate ' + kind)


def _ascii_pred_conc(kind, c):
    ch = chr(c)
    return {'upper': 'A' <= ch <= 'Z', 'lower': 'a' <= ch <= 'z', 'alpha': ch.isalpha(), 'numeric': '0' <= ch <= '9',
            'alnum': ch.isalnum(), 'ws': ch in ' \t\n\x0b\x0c\r'}[kind]


def pred(kind, c):
    """python bool for concrete c, z3 Bool for symbolic c (valid on the domain ASCII u TABLE)"""
    if not is_sym(c):
        if c < 128:
            return _ascii_pred_conc(kind, c)
        if c not in TABLE:
            raise Unsupported(f'char U+{c:04X} outside the sample set')
        return TABLE[c][kind]
    yes = [z3.BitVecVal(s, CH) == c for s, p in TABLE.items() if p[kind]]
    return z3.Or([z3.And(z3.ULT(c, 128), _ascii_pred(kind, c))] + yes)


def utf8_len(m, c):
    """concrete utf-8 length, forking on the code-point ranges when symbolic"""
    if not is_sym(c):
        return 1 if c < 0x80 else 2 if c < 0x800 else 3 if c < 0x10000 else 4
    if m.ctx.decide(z3.ULT(c, 0x80)):
        return 1
    if m.ctx.decide(z3.ULT(c, 0x800)):
        return 2
    if m.ctx.decide(z3.ULT(c, 0x10000)):
        return 3
    return 4


def to_ascii_lower(c):
    if not is_sym(c):
        return c + 32 if 65 <= c <= 90 else c
    return z3.If(_ascii_pred('upper', c), c + 32, c)


def to_ascii_upper(c):
    if not is_sym(c):
        return c - 32 if 97 <= c <= 122 else c
    return z3.If(_ascii_pred('lower', c), c - 32, c)


def case_map(m, c, which):
    """full Unicode to_lowercase / to_uppercase of one char -> list of chars; forks on the sample when symbolic"""
    key = 'to_lower' if which == 'lower' else 'to_upper'
    if not is_sym(c):
        if c < 128:
            return [to_ascii_lower(c) if which == 'lower' else to_ascii_upper(c)]
        if c not in TABLE:
            # a concrete char outside the sample read from the native build: Python's Unicode tables (same full case mappings for the
            # characters both know; every counterexample is replayed natively before it is reported)
            t = chr(c).lower() if which == 'lower' else chr(c).upper()
            return [ord(x) for x in t]
        return list(TABLE[c][key])
    if m.ctx.decide(z3.ULT(c, 128)):
        return [to_ascii_lower(c) if which == 'lower' else to_ascii_upper(c)]
    for s, p in TABLE.items():
        if m.ctx.decide(c == z3.BitVecVal(s, CH)):
            return list(p[key])
    raise Unsupported('symbolic char outside ASCII and the sample set (domain constraint missing)')
