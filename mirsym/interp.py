"""Prototype symbolic interpreter over parsed MIR with decision-replay path exploration (z3)."""
import os
import re
import time
import z3
from .mirparse import Unsupported, Place

CH = 32  # chars are BitVec(32) code points


class Panic(Exception):
    pass


class Infeasible(Exception):
    pass


# ---------------------------------------------------------------- values
class RStr:
    """immutable string: concrete-length list of chars (python int or z3 BV32)"""
    __slots__ = ('cs',)

    def __init__(self, cs):
        self.cs = list(cs)

    def __repr__(self):
        return 'RStr(' + ''.join(chr(c) if isinstance(c, int) else '?' for c in self.cs) + ')'


class Enum:
    __slots__ = ('disc', 'fields', 'name')

    def __init__(self, disc, fields=(), name=None):
        self.disc = disc
        self.fields = list(fields)
        self.name = name

    def __repr__(self):
        return f'Enum({self.name or self.disc},{self.fields})'


class Struct:
    __slots__ = ('fields', 'name')

    def __init__(self, fields, name=None):
        self.fields = list(fields)
        self.name = name

    def __repr__(self):
        return f'Struct({self.name},{self.fields})'


class Hole:
    """an uninterpreted piece of text inside an RStr (e.g. `<T as TS>::name()` for abstract T, or a string the code
    only copies around). Code that inspects it (compares, searches) makes the run Unsupported."""
    __slots__ = ('label',)

    def __init__(self, label):
        self.label = label

    def __repr__(self):
        return f'<{self.label}>'

    def __eq__(self, o):
        return isinstance(o, Hole) and self.label == o.label

    def __hash__(self):
        return hash(('Hole', self.label))


def lazy_value(tag, ty):
    """fresh symbolic value of the Rust type `ty` (as printed in a MIR projection)"""
    t = ty.strip()
    for pre in ('std::option::Option<', 'core::option::Option<', 'Option<'):
        if t.startswith(pre) and t.endswith('>'):
            d = z3.Bool(f'{tag}.is_some')
            return Enum(z3.If(d, z3.BitVecVal(1, 64), z3.BitVecVal(0, 64)), [lazy_value(tag + '.some', t[len(pre):-1])], 'Option?')
    if t == 'bool':
        return z3.Bool(tag)
    if t in ('String', 'std::string::String', '&str', "&'static str"):
        return RStr([Hole(tag)])
    return Lazy(tag)


class Lazy:
    """opaque struct/enum whose parts come into existence when the code looks at them;
    the MIR projection's type annotation says what to create"""
    n = 0

    def __init__(self, label):
        self.label = label
        self.parts = {}
        self.disc = None

    def get(self, m, idx, ty):
        if idx not in self.parts:
            Lazy.n += 1
            self.parts[idx] = lazy_value(f'{self.label}.{idx}', ty)
        return self.parts[idx]

    def discriminant(self, n_variants):
        if self.disc is None:
            self.disc = z3.BitVec(self.label + '.disc', 64)
        return self.disc

    def __repr__(self):
        return f'Lazy({self.label})'


class Closure:
    """closure value: identifying text (`{closure@file:l:c: l:c}`), captured values in order, type substitution at creation"""
    __slots__ = ('key', 'fields', 'subst')

    def __init__(self, key, fields, subst):
        self.key, self.fields, self.subst = key, list(fields), dict(subst)

    def __repr__(self):
        return f'Closure({self.key})'


class Ref:
    __slots__ = ('frame', 'place')

    def __init__(self, frame, place):
        self.frame = frame
        self.place = place


SELF_PLACE = Place('@self', [])
STD_PATH_RX = re.compile(r'\b(?:std|core|alloc)::(?:[a-z_0-9]+::)+([A-Za-z_]\w*)')

class ValRef:
    """reference to an rvalue without a home (e.g. &str constants): holds the value itself.  `frame`/`place` make it usable wherever
    a model writes through `m.write_place(r.frame, r.place, ..)`: the write replaces the held value"""
    __slots__ = ('v',)

    def __init__(self, v):
        self.v = v

    @property
    def frame(self):
        return self

    @property
    def place(self):
        return SELF_PLACE

    def setv(self, val):
        self.v = val


class FnRef(ValRef):
    """`&mut` into the middle of a container (e.g. the result of `last_mut`, `get_or_insert_with`): reads and writes go through
    a getter / setter pair, so that a write is seen by the container's owner"""
    __slots__ = ('get', 'set')

    def __init__(self, get, set):
        self.get, self.set = get, set

    @property
    def v(self):
        return self.get()

    def setv(self, val):
        self.set(val)


class Iter:
    """model of Chars / CharIndices: string + position"""
    __slots__ = ('kind', 's', 'pos')

    def __init__(self, kind, s, pos=0):
        self.kind, self.s, self.pos = kind, s, pos


def is_sym(v):
    return isinstance(v, z3.ExprRef)


def bv(v, w):
    if not is_sym(v):
        return z3.BitVecVal(v, w)
    if z3.is_bv(v) and v.size() != w:
        # a symbolic char (CH bits) meeting a narrower / wider integer type: zero-extend or truncate to the operation's width
        return z3.ZeroExt(w - v.size(), v) if v.size() < w else z3.Extract(w - 1, 0, v)
    return v


# ---------------------------------------------------------------- explorer
class Explorer:
    def __init__(self, budget=200000, time_budget=None, timeout_ms=60000):
        self.solver = z3.Solver()
        self.solver.set('timeout', timeout_ms)
        self.work = [[]]
        self.paths = 0
        self.nontrivial = 0
        self.queries = 0
        self.solver_s = 0.0
        self.budget = budget
        self.deadline = (time.time() + time_budget) if time_budget else None

    def run(self, harness):
        """harness(ctx) is run once per path; returns list of (path condition, result)"""
        results = []
        while self.work:
            prefix = self.work.pop()
            ctx = Ctx(self, prefix)
            try:
                r = harness(ctx)
                results.append((list(ctx.pc), r))
            except Infeasible:
                continue
            self.paths += 1
            if ctx.forks:
                self.nontrivial += 1
            if self.paths > self.budget:
                raise Unsupported('path budget exceeded')
            if self.deadline and time.time() > self.deadline:
                raise Unsupported('time budget exceeded')
        return results

    def check(self, exprs):
        t = time.time()
        self.queries += 1
        r = self.solver.check(*exprs)
        self.solver_s += time.time() - t
        if r == z3.unknown:
            raise Unsupported('solver answered unknown: ' + self.solver.reason_unknown())
        return r

    def model(self):
        return self.solver.model()


class Ctx:
    def __init__(self, ex, prefix):
        self.ex = ex
        self.prefix = prefix
        self.i = 0
        self.pc = []
        self.forks = 0
        self.pc_sat = False      # invariant: when True, the conjunction of self.pc is known to be satisfiable

    def assume(self, cond):
        """add a path-local assumption (used by harness-level case splits)"""
        if isinstance(cond, bool):
            if not cond:
                raise Infeasible()
            return
        self.pc.append(cond)
        self.pc_sat = False

    def decide(self, cond):
        """cond: python bool or z3 Bool. returns python bool, forking if both feasible"""
        if isinstance(cond, bool):
            return cond
        cond = z3.simplify(cond)
        if z3.is_true(cond):
            return True
        if z3.is_false(cond):
            return False
        if self.i < len(self.prefix):
            b = self.prefix[self.i]
            self.i += 1
            self.pc.append(cond if b else z3.Not(cond))
            self.forks += 1
            return b
        t = self.ex.check(self.pc + [cond]) == z3.sat
        f = True if (not t and self.pc_sat) else (self.ex.check(self.pc + [z3.Not(cond)]) == z3.sat)
        self.pc_sat = True
        if t and f:
            self.ex.work.append(self.prefix[:self.i] + [False])
            self.prefix = self.prefix[:self.i] + [True]
            self.i += 1
            self.pc.append(cond)
            self.forks += 1
            return True
        if not t and not f:
            raise Infeasible()
        b = t
        self.prefix = self.prefix[:self.i] + [b]
        self.i += 1
        self.pc.append(cond if b else z3.Not(cond))
        return b

    def pick(self, var, n):
        """case split on an integer-valued z3 variable with values 0..n-1"""
        for v in range(n - 1):
            if self.decide(var == v):
                return v
        self.assume(var == n - 1)
        return n - 1


# ---------------------------------------------------------------- interpreter
INTW = {'u8': 8, 'u16': 16, 'u32': 32, 'u64': 64, 'u128': 128, 'usize': 64,
        'i8': 8, 'i16': 16, 'i32': 32, 'i64': 64, 'i128': 128, 'isize': 64}


class Frame:
    def __init__(self, fn):
        self.fn = fn
        self.locals = {}


class Machine:
    def __init__(self, fns, models, ctx, enum_variants=None):
        self.fns = fns
        self.models = models
        self.ctx = ctx
        self.steps = 0
        self.calls = set()
        self.enum_variants = enum_variants or {}
        self.env = {}
        self.stubs = []            # [(compiled regex, fn)] -- take precedence over real MIR bodies; listed in the evidence
        self.stub_hits = set()
        self.struct_fields = {}
        self.const_hook = None     # fn(machine, const path text) -> value | None

    # ---- places
    def read_place(self, fr, pl):
        v = fr.v if isinstance(fr, ValRef) else fr.locals.get(pl.local)
        for pr in pl.proj:
            v = self.project(v, pr, fr)
        return v

    def project(self, v, pr, fr):
        k = pr[0]
        if k == 'deref':
            if isinstance(v, Ref):
                return self.read_place(v.frame, v.place)
            if isinstance(v, ValRef):
                return v.v
            if isinstance(v, Closure):
                return v          # closure bodies read captures through `(*_1).k` or `_1.k` alike
            if v is not None and not isinstance(v, Lazy):
                return v          # a value standing for the reference to it (iterator models yield items of `&Vec<T>` by value)
            raise Unsupported(f'deref of {v!r}')
        if k == 'field':
            if isinstance(v, Lazy):
                return v.get(self, pr[1], pr[2] if len(pr) > 2 else '')
            if isinstance(v, (Struct, Enum, Closure)):
                return v.fields[pr[1]]
            if isinstance(v, tuple):
                return v[pr[1]]
            raise Unsupported(f'field of {v!r}')
        if k == 'downcast':
            return v
        if k in ('index', 'constidx'):
            i = fr.locals.get(pr[1]) if k == 'index' else pr[1]
            if is_sym(i):
                raise Unsupported('indexing with a symbolic index')
            seq = v.items if hasattr(v, 'items') else (v.cs if isinstance(v, RStr) else v)
            if isinstance(v, RStr) and any((not is_sym(c)) and c > 127 for c in seq):
                raise Unsupported('byte indexing into a non-ASCII string')
            if not isinstance(seq, (list, tuple)):
                raise Unsupported(f'index into {v!r}')
            if i >= len(seq):
                raise Panic(f'index out of bounds: the len is {len(seq)} but the index is {i}')
            return seq[i]
        raise Unsupported(f'projection {pr}')

    def write_place(self, fr, pl, val):
        if not pl.proj:
            if isinstance(fr, ValRef):
                fr.setv(val)
            else:
                fr.locals[pl.local] = val
            return
        # find container
        *init, last = pl.proj
        if last[0] == 'deref':
            r = self.read_place(fr, Place(pl.local, init))
            if isinstance(r, (Ref, ValRef)):
                self.write_place(r.frame, r.place, val)
                return
            raise Unsupported(f'write through {r!r}')
        cont = self.read_place(fr, Place(pl.local, init))
        if last[0] == 'field':
            if isinstance(cont, (Struct, Enum)):
                while len(cont.fields) <= last[1]:
                    cont.fields.append(None)
                cont.fields[last[1]] = val
                return
            if isinstance(cont, tuple):
                lst = list(cont)
                lst[last[1]] = val
                self.write_place(fr, Place(pl.local, init), tuple(lst))
                return
        raise Unsupported(f'write {pl}')

    # ---- operands
    def operand(self, fr, op):
        k = op[0]
        if k in ('copy', 'move'):
            return self.read_place(fr, op[1])
        c = op[1]
        if c[0] == 'bool':
            return c[1]
        if c[0] == 'int':
            return c[1]
        if c[0] == 'char':
            return c[1]
        if c[0] == 'str':
            return ValRef(RStr(c[1]))
        if c[0] == 'bytes':
            return list(c[1])
        if c[0] == 'unit':
            return ()
        if c[0] == 'zst':
            if c[1].startswith('{closure@'):
                return Closure(c[1], [], getattr(self, 'cur_subst', {}))
            return ('zst', c[1])
        if c[0] == 'path':
            mp = re.search(r'::(promoted\[\d+\])$', c[1])
            if mp and fr is not None and ('const ' + fr.fn.name + '::' + mp.group(1)) in self.fns:
                return self.exec_fn(self.fns['const ' + fr.fn.name + '::' + mp.group(1)], [])
            text = self.subst_text(c[1])
            if self.const_hook is not None:
                v = self.const_hook(self, text)
                if v is not None:
                    return v
            return self.named_const(text)
        raise Unsupported(f'const {c}')

    def named_const(self, name):
        q = re.fullmatch(r'(?:(?:std|core)::(?:\w+::)*)?([ui])(8|16|32|64|128|size)::(MIN|MAX|BITS)', name.strip())
        if q:
            w = 64 if q.group(2) == 'size' else int(q.group(2))
            if q.group(3) == 'BITS':
                return w
            if q.group(1) == 'u':
                return 0 if q.group(3) == 'MIN' else (1 << w) - 1
            return (1 << (w - 1)) if q.group(3) == 'MIN' else (1 << (w - 1)) - 1       # two's complement, kept modulo 2^w
        key = 'const ' + name
        cand = self.fns.get(key)
        if cand is None:
            hits = [k for k in self.fns if k.startswith('const ') and (name == k[6:] or name.endswith('::' + k[6:]))]
            if hits:
                cand = self.fns[max(hits, key=len)]
        if cand is None:
            return ('path', name)
        if isinstance(cand, tuple) and cand[0] == 'constval':
            return self.operand(None, ('const', cand[1]))
        return self.exec_fn(cand, [])

    def type_of(self, fr, op):
        if op[0] in ('copy', 'move') and not op[1].proj:
            return fr.fn.locals.get(op[1].local) or dict(fr.fn.params).get(op[1].local)
        if op[0] == 'const' and op[1][0] == 'int':
            return op[1][2]
        return None

    # ---- rvalues
    def rvalue(self, fr, rv, dest_ty=None):
        k = rv[0]
        if k == 'use':
            return self.operand(fr, rv[1])
        if k == 'ref':
            return Ref(fr, rv[1])
        if k == 'discriminant':
            v = self.read_place(fr, rv[1])
            if isinstance(v, Enum):
                return v.disc
            if isinstance(v, Lazy):
                return v.discriminant(None)
            raise Unsupported(f'discriminant of {v!r}')
        if k == 'tuple':
            return tuple(self.operand(fr, o) for o in rv[1])
        if k == 'array':
            return [self.operand(fr, o) for o in rv[1]]
        if k == 'variant':
            return self.make_variant(rv[1], [self.operand(fr, o) for o in rv[2]])
        if k == 'closure':
            mm = re.match(r'^(\{closure@[^}]*\})\s*(?:\{(.*)\})?\s*$', rv[1], re.S)
            if not mm:
                raise Unsupported('closure rvalue: ' + rv[1])
            caps = []
            if mm.group(2) and mm.group(2).strip():
                from .mirparse import split_top, parse_operand
                for part in split_top(mm.group(2)):
                    caps.append(self.operand(fr, parse_operand(part.split(': ', 1)[1])))
            return Closure(mm.group(1), caps, getattr(self, 'cur_subst', {}))
        if k == 'struct':
            vals = [self.operand(fr, o) for _, o in rv[2]]
            base = re.sub(r'::<.*?>(?=::|$)', '', rv[1])
            ty, _, var = base.rpartition('::')
            key = ty.split('::')[-1]
            if key in self.enum_variants and var in self.enum_variants[key]:
                return Enum(self.enum_variants[key].index(var), vals, var)
            return Struct(vals, rv[1])
        if k == 'binop':
            a, b = self.operand(fr, rv[2]), self.operand(fr, rv[3])
            w = INTW.get(self.type_of(fr, rv[2]) or self.type_of(fr, rv[3]) or 'usize', 64)
            return self.binop(rv[1], a, b, w, self.type_of(fr, rv[2]) or '')
        if k == 'unop':
            a = self.operand(fr, rv[2])
            if rv[1] == 'Not':
                if isinstance(a, bool):
                    return not a
                if z3.is_bool(a):
                    return z3.Not(a)
                w_ = INTW.get(self.type_of(fr, rv[2]) or '', 64)
                if isinstance(a, int):
                    return (~a) % (1 << w_)
                if is_sym(a):
                    return ~a
            if rv[1] == 'Neg':
                w_ = INTW.get(self.type_of(fr, rv[2]) or '', 64)
                if isinstance(a, int):
                    return (-a) % (1 << w_)
                if is_sym(a):
                    return -a
            if rv[1] == 'PtrMetadata':
                # length of the slice / str behind a fat pointer
                from . import models2
                d = models2.deref_all(self, a)
                if isinstance(d, RStr):
                    from .models import blen
                    return blen(self, d.cs)
                if hasattr(d, 'items'):
                    return len(d.items)
                if isinstance(d, (list, tuple)):
                    return len(d)
            raise Unsupported(f'unop {rv}')
        if k == 'cast':
            v = self.operand(fr, rv[1])
            to = rv[2].strip() if len(rv) > 2 and isinstance(rv[2], str) else ''
            if rv[3:] and str(rv[3]).startswith('IntToInt') and to in INTW:
                frm = self.type_of(fr, rv[1]) or ''
                if isinstance(v, bool):
                    return int(v)
                if isinstance(v, int):
                    m_ = 1 << INTW.get(frm, 64)
                    if frm.startswith('i') and v >= m_ // 2:
                        v -= m_                      # sign-extend, then truncate to the target width
                    return v % (1 << INTW[to])
                if is_sym(v) and z3.is_bv(v):
                    fw, tw = v.size(), (CH if to == 'char' else INTW[to])
                    # symbolic integers and chars live in CH/width-sized vectors; narrowing truncates, widening extends
                    if frm in INTW and INTW[frm] < fw and frm != 'char':
                        v = z3.Extract(INTW[frm] - 1, 0, v)
                        fw = INTW[frm]
                    if tw < fw:
                        return z3.Extract(tw - 1, 0, v)
                    if tw > fw:
                        return z3.SignExt(tw - fw, v) if frm.startswith('i') else z3.ZeroExt(tw - fw, v)
                    return v
            return v
        raise Unsupported(f'rvalue {rv}')

    def make_variant(self, path, fields):
        base = re.sub(r'::<.*?>(?=::|$)', '', path)
        ty, _, var = base.rpartition('::')
        table = {'Some': 1, 'None': 0, 'Ok': 0, 'Err': 1, 'Continue': 0, 'Break': 1}
        if var in table and ty.split('::')[-1] in ('Option', 'Result', 'ControlFlow'):
            return Enum(table[var], fields, var)
        key = ty.split('::')[-1]
        if key in self.enum_variants and var in self.enum_variants[key]:
            return Enum(self.enum_variants[key].index(var), fields, var)
        hits = [(k, vs) for k, vs in self.enum_variants.items() if var in vs]
        if len(hits) == 1:
            return Enum(hits[0][1].index(var), fields, var)
        if (not ty and var[:1].isupper()) or var in self.struct_fields:
            return Struct(fields, path)      # tuple-struct constructor
        raise Unsupported(f'variant {path}')

    def binop(self, op, a, b, w, ty):
        signed = ty.startswith('i')
        if isinstance(a, bool) or isinstance(b, bool) or (is_sym(a) and z3.is_bool(a)):
            if op == 'Eq':
                return a == b if not (is_sym(a) or is_sym(b)) else (a == b)
            if op == 'Ne':
                return a != b if not (is_sym(a) or is_sym(b)) else (a != b)
            if op in ('BitAnd', 'BitOr', 'BitXor'):
                if not is_sym(a) and not is_sym(b):
                    return {'BitAnd': a and b, 'BitOr': a or b, 'BitXor': a != b}[op]
                f = {'BitAnd': z3.And, 'BitOr': z3.Or, 'BitXor': z3.Xor}[op]
                return f(a if is_sym(a) else z3.BoolVal(a), b if is_sym(b) else z3.BoolVal(b))
        if not is_sym(a) and not is_sym(b):
            m = (1 << w)
            sa, sb = a, b
            if signed:          # values are kept modulo 2^w: reinterpret for order, division and shifts
                sa = a - m if a >= m // 2 else a
                sb = b - m if b >= m // 2 else b
            if op == 'Eq': return a == b
            if op == 'Ne': return a != b
            if op == 'Lt': return sa < sb
            if op == 'Le': return sa <= sb
            if op == 'Gt': return sa > sb
            if op == 'Ge': return sa >= sb
            if op == 'Add': return (a + b) % m
            if op == 'Sub': return (a - b) % m
            if op == 'Mul': return (sa * sb) % m
            if op == 'AddWithOverflow':
                r = sa + sb
                return (r % m, not (-(m // 2) <= r < m // 2) if signed else r >= m)
            if op == 'SubWithOverflow':
                r = sa - sb
                return (r % m, not (-(m // 2) <= r < m // 2) if signed else r < 0)
            if op == 'MulWithOverflow':
                r = sa * sb
                return (r % m, not (-(m // 2) <= r < m // 2) if signed else r >= m)
            if op in ('Div', 'Rem'):
                if sb == 0:
                    raise Panic('attempt to divide by zero' if op == 'Div' else 'attempt to calculate the remainder with a divisor of zero')
                q = abs(sa) // abs(sb) * (1 if (sa < 0) == (sb < 0) else -1)      # Rust truncates towards zero
                return (q % m) if op == 'Div' else ((sa - q * sb) % m)
            if op == 'BitAnd': return a & b
            if op == 'BitOr': return a | b
            if op == 'BitXor': return a ^ b
            if op in ('Shl', 'ShlUnchecked'): return (a << (b % w)) % m
            if op in ('Shr', 'ShrUnchecked'): return (sa >> (b % w)) % m
            if op == 'Cmp':
                return Enum((0 if sa == sb else (1 if sa > sb else 255)), [], {0: 'Equal', 1: 'Greater', 255: 'Less'}[0 if sa == sb else (1 if sa > sb else 255)])
            raise Unsupported('binop ' + op)
        ww = CH if ty == 'char' else w
        A, B = bv(a, ww), bv(b, ww)
        if op == 'Eq': return A == B
        if op == 'Ne': return A != B
        if op == 'Lt': return (A < B) if signed else z3.ULT(A, B)
        if op == 'Le': return (A <= B) if signed else z3.ULE(A, B)
        if op == 'Gt': return (A > B) if signed else z3.UGT(A, B)
        if op == 'Ge': return (A >= B) if signed else z3.UGE(A, B)
        if op == 'Add': return A + B
        if op == 'Sub': return A - B
        if op == 'Mul': return A * B
        if op == 'BitAnd': return A & B
        if op == 'BitOr': return A | B
        if op == 'BitXor': return A ^ B
        if op in ('Shl', 'ShlUnchecked'): return A << B
        if op in ('Shr', 'ShrUnchecked'): return (A >> B) if signed else z3.LShR(A, B)
        if op == 'AddWithOverflow':
            ovf = z3.Not(z3.BVAddNoOverflow(A, B, signed)) if not signed else z3.Or(z3.Not(z3.BVAddNoOverflow(A, B, True)), z3.Not(z3.BVAddNoUnderflow(A, B)))
            return (A + B, ovf)
        if op == 'SubWithOverflow':
            ovf = z3.Not(z3.BVSubNoUnderflow(A, B, signed)) if not signed else z3.Or(z3.Not(z3.BVSubNoOverflow(A, B)), z3.Not(z3.BVSubNoUnderflow(A, B, True)))
            return (A - B, ovf)
        if op in ('Div', 'Rem'):
            if self.ctx.decide(B == 0):
                raise Panic('attempt to divide by zero' if op == 'Div' else 'attempt to calculate the remainder with a divisor of zero')
            if op == 'Div':
                return (A / B) if signed else z3.UDiv(A, B)
            return z3.SRem(A, B) if signed else z3.URem(A, B)
        raise Unsupported('sym binop ' + op)

    # ---- calls
    @staticmethod
    def _norm_ty(t):
        t = t.replace('&mut ', '').replace('&', '').replace("'_ ", '').strip()
        return re.sub(r'(?:r#)?\b\w+::', '', t)

    @staticmethod
    def _unify(pat, ty):
        """match normalised type `pat` (single capital letters = type parameters) against `ty`"""
        toks = re.split(r'(\b[A-Z]\b)', pat)
        rx = ''.join('(.+)' if i % 2 else re.escape(t) for i, t in enumerate(toks))
        mm = re.match('^' + rx + '$', ty)
        if not mm:
            return None
        params = [t for i, t in enumerate(toks) if i % 2]
        sub = {}
        for p_, v in zip(params, mm.groups()):
            if sub.setdefault(p_, v) != v:
                return None
        return sub

    fn_generics = {}        # {simple fn name: [type parameter names]} (srcinfo.fn_generics); set by the harness
    type_rewrites = []      # [(compiled regex, replacement)] applied to callee texts after substitution (associated types)

    @staticmethod
    def split_turbofish(callee):
        """`a::b::<X, Y>` -> ('a::b', ['X', 'Y']); no trailing turbofish -> (callee, [])"""
        if not callee.endswith('>'):
            return callee, []
        depth = 0
        for i in range(len(callee) - 1, -1, -1):
            c = callee[i]
            if c == '>' and callee[i - 1] != '-':
                depth += 1
            elif c == '<':
                depth -= 1
                if depth == 0:
                    if i >= 2 and callee[i - 2:i] == '::':
                        from .mirparse import split_top
                        return callee[:i - 2], split_top(callee[i + 1:-1])
                    return callee, []
        return callee, []

    def bind_generics(self, fn_name, targs, base=None):
        sub = dict(base or {})
        simple = re.sub(r'::\{closure#\d+\}$', '', fn_name).rsplit('::', 1)[-1]
        params = self.fn_generics.get(simple) or []
        targs = [a for a in targs if not a.strip().startswith("'")]        # lifetimes are not in the parameter list kept
        for p_, a in zip(params, targs):
            sub[p_] = a
        return sub

    def resolve(self, callee):
        self.last_subst = {}
        if callee in self.fns:
            return self.fns[callee]
        head, targs = self.split_turbofish(callee)
        if targs and head in self.fns and hasattr(self.fns[head], 'blocks'):
            self.last_subst = self.bind_generics(head, targs)
            return self.fns[head]
        # trait method: explicit impl first, then the trait's default body with Self bound
        mq = re.match(r'^<(.*) as ((?:crate::)?\w+(?:<.*>)?)>::(\w+)$', head)
        if mq:
            f = self._resolve_impl(head)
            if f is not None:
                self.last_subst = self.bind_generics(f.name, targs, self.last_subst)
                return f
            trait = re.sub(r'^crate::', '', mq.group(2))
            dflt = f'{trait}::{mq.group(3)}'
            if dflt in self.fns and hasattr(self.fns[dflt], 'blocks'):
                self.last_subst = self.bind_generics(dflt, targs, {'Self': mq.group(1)})
                return self.fns[dflt]
        f = self._resolve_impl(head)
        if f is not None and targs:
            self.last_subst = self.bind_generics(f.name, targs, self.last_subst)
        if f is not None:
            # `Type::<A, B>::method`: bind the impl's own generics (`impl<T, U> Type<T, U>`) to the type arguments
            mt = re.match(r'^([\w:#]+)::<(.*)>::\w+$', head)
            hdr = self.impl_header(f.name) or ''
            mh = re.match(r'^impl\s*<([^>]*)>', hdr)
            if mt and mh:
                from .mirparse import split_top
                params = [p_.split(':')[0].strip() for p_ in split_top(mh.group(1)) if not p_.strip().startswith("'")]
                args_ = [a for a in split_top(mt.group(2)) if not a.strip().startswith("'")]
                sub = dict(self.last_subst)
                for p_, a in zip(params, args_):
                    sub.setdefault(p_, a)
                self.last_subst = sub
        return f

    def _resolve_impl(self, callee):
        mt = re.match(r'^<(.*) as ([^<>]*(?:<.*>)?)>::(\w+)(::<.*>)?$', callee)
        if mt:
            self_ty, meth = self._norm_ty(mt.group(1)), mt.group(3)
            cands = []
            for name, f in self.fns.items():
                if hasattr(f, 'params') and name.endswith('>::' + meth) and '<impl at ' in name and name.count('<impl at') == 1:
                    pat = self._norm_ty(f.params[0][1]) if f.params else self._norm_ty(f.ret)
                    sub = self._unify(pat, self_ty)
                    if sub is not None:
                        cands.append((f, sub))
            if not cands:
                # the self type may only occur in the return type (constructors: try_from, default, from ...)
                for name, f in self.fns.items():
                    if hasattr(f, 'params') and name.endswith('>::' + meth) and '<impl at ' in name and name.count('<impl at') == 1:
                        r_ = self._norm_ty(f.ret)
                        if r_ in (self_ty, f'Result<{self_ty}, Error>', f'Option<{self_ty}>'):
                            cands.append((f, {}))
            if len(cands) > 1:
                raw = mt.group(1).replace('&mut ', '').replace('&', '').strip()
                full = [c for c in cands if c[0].params and c[0].params[0][1].replace('&mut ', '').replace('&', '').strip().endswith(raw)]
                if len(full) == 1:
                    cands = full
            exact = [c for c in cands if not c[1]]
            if len(exact) == 1:
                return exact[0][0]
            if len(cands) == 1:
                self.last_subst = cands[0][1]
                return cands[0][0]
        # `Type::method` vs definition `mod::<impl at ...>::method`
        base = re.sub(r'::<[^<>]*(<[^<>]*>[^<>]*)*>', '', callee)
        if base in self.fns:
            return self.fns[base]
        ty, _, meth = base.rpartition('::')
        cands = []
        for name, f in self.fns.items():
            if not hasattr(f, 'params'):
                continue
            if name.endswith('>::' + meth) and '<impl at ' in name:
                first = f.params[0][1] if f.params else ''
                hdr = self.impl_header(name) or ''
                hm_ = re.match(r'[\w:#]+', re.sub(r'^impl\s*(<[^>]*>)?\s*', '', hdr.split(' for ')[-1].strip())) if hdr else None
                hself = hm_.group(0).split('::')[-1] if hm_ else None
                if ty.split('::')[-1] in (first.lstrip('&').replace('mut ', ''), f.ret, self._norm_ty(first), self._norm_ty(f.ret), hself):
                    cands.append(f)
        if len(cands) > 1:
            inherent = [f for f in cands if ' for ' not in (self.impl_header(f.name) or ' for ')]
            if len(inherent) == 1:
                return inherent[0]
        if len(cands) == 1:
            return cands[0]
        return None

    _HDR = {}
    src_roots = [os.environ.get('VERIF_REPO', '/repo')]

    def impl_header(self, name):
        """source text of the `impl ..` header a MIR symbol `<impl at file:l:c: l:c>` points to (None if unreadable)"""
        mm = re.search(r'<impl at ([^:>]+):(\d+):(\d+): (\d+):(\d+)>', name)
        if not mm:
            return None
        key = mm.group(0)
        if key in Machine._HDR:
            return Machine._HDR[key]
        txt = None
        for root in self.src_roots:
            p = os.path.join(root, mm.group(1))
            if os.path.exists(p):
                with open(p) as fh:
                    lines = fh.read().split('\n')
                l1, c1, l2, c2 = (int(mm.group(i)) for i in (2, 3, 4, 5))
                if l1 == l2:
                    txt = lines[l1 - 1][c1 - 1:c2 - 1]
                else:
                    txt = '\n'.join([lines[l1 - 1][c1 - 1:]] + lines[l1:l2 - 1] + [lines[l2 - 1][:c2 - 1]])
                break
        Machine._HDR[key] = txt
        return txt

    frame_rewrite = None       # optional fn(text) -> text applied to the callee texts of the CURRENT frame only (set by harness code)

    def subst_text(self, text):
        if self.frame_rewrite is not None:
            text = self.frame_rewrite(text)
        sub = getattr(self, 'cur_subst', {})
        if sub:
            text = re.sub(r'\b(' + '|'.join(map(re.escape, sub)) + r')\b', lambda mm: sub[mm.group(1)], text)
        for rx, rep in self.type_rewrites:
            text = rx.sub(rep, text)
        return text

    def call_closure(self, clo, args):
        while isinstance(clo, (Ref, ValRef)):
            clo = self.read_place(clo.frame, clo.place) if isinstance(clo, Ref) else clo.v
        if isinstance(clo, tuple) and clo and (clo[0] == 'path' or (clo[0] == 'zst' and not str(clo[1]).startswith('{closure'))):
            return self.call(clo[1], list(args))          # fn item used as a callable
        if isinstance(clo, Closure):
            key, sub = clo.key, clo.subst
        else:
            key, sub = (clo[1] if isinstance(clo, tuple) else str(clo)), None
        for name, f in self.fns.items():
            if hasattr(f, 'params') and f.params and key in f.params[0][1] and '{closure#' in name and not name.startswith('const '):
                saved = getattr(self, 'cur_subst', {})
                if sub is not None:
                    self.cur_subst = dict(sub)
                try:
                    # FnOnce closures take the closure by value, Fn/FnMut by reference: both read captures through `_1`
                    return self.exec_fn(f, [clo] + list(args))
                finally:
                    self.cur_subst = saved
        raise Unsupported('closure body not found: ' + key)

    def call(self, callee, args):
        callee = self.subst_text(callee)
        self.calls.add(re.sub(r'\s+', ' ', callee))
        for pat, stub in self.stubs:
            if pat.search(callee):
                self.stub_hits.add(pat.pattern)
                return stub(self, callee, args)
        f = self.resolve(callee)
        if f is not None:
            saved = getattr(self, 'cur_subst', {})
            saved_fr = self.frame_rewrite
            self.cur_subst = dict(self.last_subst)
            self.frame_rewrite = None
            try:
                return self.exec_fn(f, args)
            finally:
                self.cur_subst = saved
                self.frame_rewrite = saved_fr
        for pat, model in self.models:
            if pat.search(callee):
                return model(self, callee, args)
        # rustc prints a path in full when the short name is ambiguous in the crate (e.g. with third-party features enabled:
        # `std::string::String`, `std::fmt::format`): retry with the std paths shortened the way the models are keyed
        short = STD_PATH_RX.sub(lambda a: a.group(1), callee)
        if short != callee:
            for pat, model in self.models:
                if pat.search(short):
                    return model(self, short, args)
        raise Unsupported('no model for callee: ' + callee)

    def exec_fn(self, fn, args):
        if isinstance(fn, Exception):
            raise fn
        fr = Frame(fn)
        for (l, _), a in zip(fn.params, args):
            fr.locals[l] = a
        bb = 'bb0'
        while True:
            for st in fn.blocks[bb]:
                self.steps += 1
                if self.steps > 2_000_000:
                    raise Unsupported('step budget')
                k = st[0]
                if k == 'nop':
                    continue
                if k == 'assign':
                    self.write_place(fr, st[1], self.rvalue(fr, st[2]))
                    continue
                if k == 'goto':
                    bb = st[1]
                    break
                if k == 'return':
                    return fr.locals.get(0, ())
                if k == 'drop':
                    bb = st[2]['return']
                    break
                if k == 'switch':
                    v = self.operand(fr, st[1])
                    tg = st[2]
                    nxt = None
                    for key, dst in tg.items():
                        if key == 'otherwise':
                            continue
                        kv = int(key)
                        if isinstance(v, bool):
                            c = (int(v) == kv)
                        elif is_sym(v) and z3.is_bool(v):
                            c = v if kv == 1 else z3.Not(v)
                        elif is_sym(v):
                            c = (v == z3.BitVecVal(kv, v.size()))
                        else:
                            c = (v == kv)
                        if self.ctx.decide(c):
                            nxt = dst
                            break
                    if nxt is None:
                        nxt = tg['otherwise']
                    bb = nxt
                    break
                if k == 'assert':
                    v = self.operand(fr, st[1])
                    ok = v if st[2] else (z3.Not(v) if is_sym(v) else (not v))
                    if self.ctx.decide(ok):
                        bb = st[4]['success']
                        break
                    raise Panic('assert: ' + st[3])
                if k == 'call':
                    args_v = [self.operand(fr, a) for a in st[3]]
                    r = self.call(st[2], args_v)
                    self.write_place(fr, st[1], r)
                    if 'return' not in st[4]:
                        raise Panic('diverging call ' + st[2])
                    bb = st[4]['return']
                    break
                if k == 'unreachable':
                    raise Unsupported('reached unreachable in ' + fn.name)
                raise Unsupported(f'stmt {st}')
            else:
                raise Unsupported('block without terminator')
