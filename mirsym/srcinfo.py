"""Facts read from the Rust sources that the MIR text does not carry: enum variant order, struct field names."""
import os
import re


FIELD_TYPES = {}     # struct -> {field: type text}; filled by scan()


def _strip_comments(s):
    s = re.sub(r'//[^\n]*', '', s)
    s = re.sub(r'/\*.*?\*/', '', s, flags=re.S)
    return s


def _body(s, open_idx):
    depth = 0
    for i in range(open_idx, len(s)):
        if s[i] == '{':
            depth += 1
        elif s[i] == '}':
            depth -= 1
            if depth == 0:
                return s[open_idx + 1:i]
    return ''


def _split_top(body):
    out, depth, cur = [], 0, []
    for ch in body:
        if ch in '([{<':
            depth += 1
        elif ch in ')]}>':
            depth -= 1
        if ch == ',' and depth == 0:
            out.append(''.join(cur).strip())
            cur = []
        else:
            cur.append(ch)
    t = ''.join(cur).strip()
    if t:
        out.append(t)
    return out


def scan(paths, features=()):
    """returns (enums: {name: [variant,...]}, structs: {name: [field,...]})"""
    enums, structs = {}, {}
    files = []
    for p in paths:
        if os.path.isdir(p):
            for d, _, fs in os.walk(p):
                files += [os.path.join(d, f) for f in fs if f.endswith('.rs')]
        else:
            files.append(p)
    for f in sorted(files):
        with open(f) as fh:
            s = _strip_comments(fh.read())
        for m in re.finditer(r'\benum\s+(\w+)\s*(<[^{]*>)?\s*\{', s):
            items = _split_top(_body(s, m.end() - 1))
            vs = []
            for it in items:
                cf = re.search(r'#\[cfg\(feature\s*=\s*"([^"]+)"\)\]', it)
                if cf and cf.group(1) not in features:
                    continue
                it = re.sub(r'#\[[^\]]*\]\s*', '', it).strip()
                mm = re.match(r'^(?:r#)?(\w+)', it)
                if mm:
                    vs.append(mm.group(1))
            enums.setdefault(m.group(1), vs)
        for m in re.finditer(r'\bstruct\s+(\w+)\s*(<[^{;(]*>)?\s*(where[^{]*)?\{', s):
            items = _split_top(_body(s, m.end() - 1))
            fs_ = []
            for it in items:
                it = re.sub(r'#\[[^\]]*\]\s*', '', it).strip()
                mm = re.match(r'^(?:pub(?:\([^)]*\))?\s+)?(?:r#)?(\w+)\s*:\s*(.*)$', it, re.S)
                if mm:
                    fs_.append(mm.group(1))
                    FIELD_TYPES.setdefault(m.group(1), {})[mm.group(1)] = ' '.join(mm.group(2).split())
            structs.setdefault(m.group(1), fs_)
        for m in re.finditer(r'\bstruct\s+(\w+)\s*(<[^{;(]*>)?\s*\(', s):
            structs.setdefault(m.group(1), [])
    return enums, structs


def fn_generics(paths):
    """{simple fn name: [type parameter names]} for every `fn name<..>(` in the sources (lifetimes and const params skipped).
    Trait/impl blocks contribute `Self` implicitly; that is handled by the caller."""
    out = {}
    files = []
    for p in paths:
        if os.path.isdir(p):
            for d, _, fs in os.walk(p):
                files += [os.path.join(d, f) for f in fs if f.endswith('.rs')]
        else:
            files.append(p)
    for f in sorted(files):
        with open(f) as fh:
            s = _strip_comments(fh.read())
        for m in re.finditer(r'\bfn\s+(\w+)\s*<', s):
            depth, i = 0, m.end() - 1
            while i < len(s):
                if s[i] == '<':
                    depth += 1
                elif s[i] == '>' and s[i - 1] != '-':
                    depth -= 1
                    if depth == 0:
                        break
                i += 1
            params = []
            for part in _split_top(s[m.end():i]):
                part = part.strip()
                if not part or part.startswith("'") or part.startswith('const '):
                    continue
                params.append(re.match(r'^(\w+)', part).group(1))
            prev = out.get(m.group(1))
            if prev is not None and prev != params:
                out[m.group(1)] = None        # ambiguous simple name
            else:
                out[m.group(1)] = params
    return out
