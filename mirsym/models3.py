"""prototype models: string searching/splitting, lazy iterator adapters, BTreeMap/BTreeSet, HashMap/HashSet,
Mutex/OnceLock, and an in-memory file system (environment model for export_and_merge)."""
import re
import z3
from .interp import RStr, Enum, Struct, Ref, ValRef, Iter, Panic, is_sym, bv, CH
from .mirparse import Unsupported
from .models import MODELS, model, rstr
from .models2 import PyIter, RVec, deref_all, ceq, str_eq, iter_next as _iter_next2
from . import models2


# ------------------------------------------------------------------ helpers
def cmp_char_eq(m, a, b):
    if not is_sym(a) and not is_sym(b):
        return a == b
    return m.ctx.decide(bv(a, CH) == bv(b, CH))


def match_at(m, cs, i, pat):
    if i + len(pat) > len(cs):
        return False
    for k, p in enumerate(pat):
        if not cmp_char_eq(m, cs[i + k], p):
            return False
    return True


def find(m, cs, pat, start=0):
    if not pat:
        return start
    i = start
    while i + len(pat) <= len(cs):
        if match_at(m, cs, i, pat):
            return i
        i += 1
    return -1


def split_list(m, cs, pat):
    out, start = [], 0
    while True:
        i = find(m, cs, pat, start)
        if i < 0:
            out.append(cs[start:])
            return out
        out.append(cs[start:i])
        start = i + len(pat)


WS = (32, 9, 10, 11, 12, 13)


def is_ws(m, c):
    if not is_sym(c):
        return c in WS or c in (0x85, 0xA0, 0x1680, 0x2028, 0x2029, 0x3000) or 0x2000 <= c <= 0x200A
    return m.ctx.decide(z3.Or([c == z3.BitVecVal(w, CH) for w in WS]))


def str_lt(m, a, b):
    """lexicographic a < b on code points (== byte order for valid UTF-8)"""
    for x, y in zip(a, b):
        if cmp_char_eq(m, x, y):
            continue
        if not is_sym(x) and not is_sym(y):
            return x < y
        return m.ctx.decide(z3.ULT(bv(x, CH), bv(y, CH)))
    return len(a) < len(b)


def S(v):
    return ValRef(RStr(v))


def some(v):
    return Enum(1, [v], 'Some')


NONE = lambda: Enum(0, [], 'None')
OK = lambda v: Enum(0, [v], 'Ok')
ERR = lambda v: Enum(1, [v], 'Err')


# ------------------------------------------------------------------ iterators (generic)
def it_next(m, it):
    it = deref_all(m, it) if not isinstance(it, PyIter) else it
    k = it.kind
    if k in ('list', 'slice', 'components'):
        if it.pos >= len(it.items):
            return None
        v = it.items[it.pos]
        it.pos += 1
        return ValRef(v) if k == 'slice' else v
    if k == 'map':
        v = it_next(m, it.inner)
        return None if v is None else m.call_closure(it.closure, [v])
    if k == 'skip':
        while it.n > 0:
            it.n -= 1
            if it_next(m, it.inner) is None:
                return None
        return it_next(m, it.inner)
    if k == 'chain':
        if not it.a_done:
            v = it_next(m, it.a)
            if v is not None:
                return v
            it.a_done = True
        return it_next(m, it.b)
    if k == 'peekable':
        if it.peeked is not None:
            v, it.peeked = it.peeked[0], None
            return v
        return it_next(m, it.inner)
    raise Unsupported('iterator kind ' + k)


models2.iter_next = it_next   # share with path models


@model(r' as Iterator>::next$')
def _(m, callee, args):
    v = it_next(m, args[0])
    return NONE() if v is None else some(v)


@model(r' as IntoIterator>::into_iter$')
def _(m, callee, args):
    v = args[0]
    if isinstance(v, BTree):
        return PyIter('list', items=[(k, val) for k, val in v.items], pos=0)
    return v


@model(r' as Iterator>::skip$')
def _(m, callee, args):
    return PyIter('skip', inner=args[0], n=args[1])


@model(r' as Iterator>::chain::<')
def _(m, callee, args):
    return PyIter('chain', a=args[0], b=args[1], a_done=False)


@model(r' as Iterator>::map::<')
def _(m, callee, args):
    return PyIter('map', inner=args[0], closure=args[1])


@model(r' as Iterator>::peekable$')
def _(m, callee, args):
    return PyIter('peekable', inner=args[0], peeked=None)


@model(r'^Peekable::<.*>::peek$')
def _(m, callee, args):
    it = deref_all(m, args[0])
    if it.peeked is None:
        it.peeked = (it_next(m, it.inner),)
    v = it.peeked[0]
    return NONE() if v is None else some(ValRef(v))


@model(r' as Iterator>::last$')
def _(m, callee, args):
    last = None
    while True:
        v = it_next(m, args[0])
        if v is None:
            break
        last = v
    return NONE() if last is None else some(last)


@model(r'^Option::<.*>::is_some$')
def _(m, callee, args):
    return deref_all(m, args[0]).disc == 1


@model(r'^Option::<.*>::expect$')
def _(m, callee, args):
    if args[0].disc == 0:
        raise Panic('expect: ' + ''.join(chr(c) for c in deref_all(m, args[1]).cs))
    return args[0].fields[0]


# ------------------------------------------------------------------ str
@model(r'str::<impl str>::split_once::<&str>$')
def _(m, callee, args):
    cs, pat = rstr(m, args[0]).cs, rstr(m, args[1]).cs
    i = find(m, cs, pat)
    if i < 0:
        return NONE()
    return some((S(cs[:i]), S(cs[i + len(pat):])))


@model(r'str::<impl str>::split::<&str>$')
def _(m, callee, args):
    cs, pat = rstr(m, args[0]).cs, rstr(m, args[1]).cs
    return PyIter('list', items=[S(p) for p in split_list(m, cs, pat)], pos=0)


@model(r'str::<impl str>::lines$')
def _(m, callee, args):
    cs = rstr(m, args[0]).cs
    parts = split_list(m, cs, [10])
    if parts and not parts[-1]:
        parts.pop()
    out = []
    for p in parts:
        if p and cmp_char_eq(m, p[-1], 13):
            p = p[:-1]
        out.append(S(p))
    return PyIter('list', items=out, pos=0)


@model(r'str::<impl str>::split_whitespace$')
def _(m, callee, args):
    cs = rstr(m, args[0]).cs
    out, cur = [], []
    for c in cs:
        if is_ws(m, c):
            if cur:
                out.append(S(cur))
            cur = []
        else:
            cur.append(c)
    if cur:
        out.append(S(cur))
    return PyIter('list', items=out, pos=0)


def _pat_pred(m, pat):
    """pattern argument -> ('str', chars) | ('chars', [c...])"""
    p = deref_all(m, pat)
    if isinstance(p, RStr):
        return ('str', p.cs)
    if isinstance(p, list):
        return ('chars', p)
    if isinstance(p, int) or is_sym(p):
        return ('chars', [p])
    raise Unsupported(f'pattern {p!r}')


def _trim(m, cs, pat, front, back):
    kind, p = pat
    cs = list(cs)
    if kind == 'str':
        while front and p and match_at(m, cs, 0, p):
            cs = cs[len(p):]
        while back and p and len(cs) >= len(p) and match_at(m, cs, len(cs) - len(p), p):
            cs = cs[:-len(p)]
    else:
        anyeq = lambda c: any(cmp_char_eq(m, c, q) for q in p)
        while front and cs and anyeq(cs[0]):
            cs = cs[1:]
        while back and cs and anyeq(cs[-1]):
            cs = cs[:-1]
    return S(cs)


@model(r'str::<impl str>::trim_start_matches::<')
def _(m, callee, args):
    return _trim(m, rstr(m, args[0]).cs, _pat_pred(m, args[1]), True, False)


@model(r'str::<impl str>::trim_end_matches::<')
def _(m, callee, args):
    return _trim(m, rstr(m, args[0]).cs, _pat_pred(m, args[1]), False, True)


@model(r'str::<impl str>::trim_matches::<')
def _(m, callee, args):
    return _trim(m, rstr(m, args[0]).cs, _pat_pred(m, args[1]), True, True)


# registered before the generic replace::<char> of models.py would be tried: more specific pattern first
@model(r'str::<impl str>::replace::<&str>$')
def _(m, callee, args):
    cs, pat, to = rstr(m, args[0]).cs, rstr(m, args[1]).cs, rstr(m, args[2]).cs
    parts = split_list(m, cs, pat)
    out = []
    for i, p in enumerate(parts):
        if i:
            out.extend(to)
        out.extend(p)
    return RStr(out)


@model(r'^String::push_str$')
def _(m, callee, args):
    r = args[0]
    s = rstr(m, r)
    m.write_place(r.frame, r.place, RStr(s.cs + rstr(m, args[1]).cs))
    return ()


@model(r'^String::len$')
def _(m, callee, args):
    return len(rstr(m, args[0]).cs)


@model(r'^String::as_bytes$')
def _(m, callee, args):
    return ValRef(rstr(m, args[0]))


@model(r'^<&str as PartialOrd>::lt$')
def _(m, callee, args):
    return str_lt(m, rstr(m, deref_all_once(m, args[0])).cs, rstr(m, deref_all_once(m, args[1])).cs)


def deref_all_once(m, v):
    return v


# ------------------------------------------------------------------ ordered collections
class BTree:
    """BTreeMap (items: [(key, value)]) or BTreeSet (items: [(key, None)]), keys = strings, kept sorted"""
    def __init__(self):
        self.items = []

    def locate(self, m, key):
        kc = deref_all(m, key).cs
        for i, (k, _) in enumerate(self.items):
            ec = deref_all(m, k).cs
            if str_eq(m, RStr(kc), RStr(ec)):
                return i, True
            if str_lt(m, kc, ec):
                return i, False
        return len(self.items), False


@model(r'^<BTree(Map|Set)<.*> as Default>::default$')
def _(m, callee, args):
    return BTree()


@model(r'^BTreeMap::<.*>::entry$')
def _(m, callee, args):
    return ('entry', deref_all(m, args[0]), args[1])


@model(r'^std::collections::btree_map::Entry::<.*>::or_default$')
def _(m, callee, args):
    _, tree, key = args[0]
    i, found = tree.locate(m, key)
    if not found:
        tree.items.insert(i, (key, BTree()))
    return ValRef(tree.items[i][1])


@model(r'^BTreeSet::<.*>::insert$')
def _(m, callee, args):
    tree = deref_all(m, args[0])
    i, found = tree.locate(m, args[1])
    if not found:
        tree.items.insert(i, (args[1], None))
    return not found


@model(r'^BTreeSet::<.*>::iter$')
def _(m, callee, args):
    tree = deref_all(m, args[0])
    return PyIter('slice', items=[k for k, _ in tree.items], pos=0)


# ------------------------------------------------------------------ hash collections, mutex, registry
class HMap:
    def __init__(self):
        self.items = []   # [(key RStr, value)]

    def find(self, m, key):
        kc = deref_all(m, key)
        for i, (k, _) in enumerate(self.items):
            if str_eq(m, kc, k):
                return i
        return -1


@model(r'^get_export_paths::')
def _(m, callee, args):
    if 'registry' not in m.env:
        m.env['registry'] = HMap()
    return ValRef(('mutex', m.env['registry']))


@model(r'^std::sync::Mutex::<.*>::lock$')
def _(m, callee, args):
    mu = deref_all(m, args[0])
    m.env['lock_held'] = True
    return OK(('guard', mu[1]))


@model(r'^Result::<.*>::unwrap$')
def _(m, callee, args):
    if args[0].disc != 0:
        raise Panic('called `Result::unwrap()` on an `Err` value')
    return args[0].fields[0]


@model(r'MutexGuard<.*> as DerefMut>::deref_mut$')
def _(m, callee, args):
    return ValRef(deref_all(m, args[0])[1])


@model(r'^HashMap::<.*>::get_mut::<')
def _(m, callee, args):
    assert m.env.get('lock_held'), 'registry touched without the lock'
    hm = deref_all(m, args[0])
    i = hm.find(m, args[1])
    return NONE() if i < 0 else some(ValRef(hm.items[i][1]))


@model(r'^HashMap::<.*>::insert$')
def _(m, callee, args):
    assert m.env.get('lock_held'), 'registry touched without the lock'
    hm = deref_all(m, args[0])
    i = hm.find(m, args[1])
    if i >= 0:
        old = hm.items[i][1]
        hm.items[i] = (hm.items[i][0], args[2])
        return some(old)
    hm.items.append((deref_all(m, args[1]), args[2]))
    return NONE()


@model(r'^HashSet::<String>::new$')
def _(m, callee, args):
    return HMap()


@model(r'^HashSet::<String>::insert$')
def _(m, callee, args):
    hs = deref_all(m, args[0])
    if hs.find(m, args[1]) >= 0:
        return False
    hs.items.append((deref_all(m, args[1]), None))
    return True


@model(r'^HashSet::<String>::contains::<')
def _(m, callee, args):
    return deref_all(m, args[0]).find(m, args[1]) >= 0


# ------------------------------------------------------------------ file system model
class PyFile:
    def __init__(self, key):
        self.key = key
        self.cur = 0


def fs_key(m, p):
    return tuple(deref_all(m, p).cs)   # prototype: concrete paths only


@model(r'^File::create::<')
def _(m, callee, args):
    assert m.env.get('lock_held'), 'file touched without the lock'
    k = fs_key(m, args[0])
    m.env['fs'][k] = []
    m.env['fs_log'].append(('create', k))
    return OK(PyFile(k))


@model(r'^OpenOptions::new$')
def _(m, callee, args):
    return ('openopts',)


@model(r'^OpenOptions::(read|write)$')
def _(m, callee, args):
    return args[0]


@model(r'^OpenOptions::open::<')
def _(m, callee, args):
    assert m.env.get('lock_held'), 'file touched without the lock'
    k = fs_key(m, args[1])
    if k not in m.env['fs']:
        return ERR(('io', 'ENOENT'))
    return OK(PyFile(k))


@model(r'^<File as std::io::Write>::write_all$')
def _(m, callee, args):
    f = deref_all(m, args[0])
    data = deref_all(m, args[1]).cs
    cur = m.env['fs'][f.key]
    m.env['fs'][f.key] = cur[:f.cur] + list(data) + cur[f.cur + len(data):]
    f.cur += len(data)
    return OK(())


@model(r'^File::sync_all$')
def _(m, callee, args):
    return OK(())


@model(r'^File::metadata$')
def _(m, callee, args):
    return OK(('meta', len(m.env['fs'][deref_all(m, args[0]).key])))


@model(r'^Metadata::len$')
def _(m, callee, args):
    return deref_all(m, args[0])[1]


@model(r'^<File as std::io::Read>::read_to_string$')
def _(m, callee, args):
    f = deref_all(m, args[0])
    r = args[1]
    data = m.env['fs'][f.key][f.cur:]
    m.write_place(r.frame, r.place, RStr(rstr(m, r).cs + data))
    f.cur += len(data)
    return OK(len(data))


@model(r'^<File as Seek>::seek$')
def _(m, callee, args):
    f = deref_all(m, args[0])
    f.cur = args[1].fields[0]
    return OK(f.cur)


@model(r'^<Result<.*> as FromResidual<Result<Infallible, std::io::Error>>>::from_residual$')
def _(m, callee, args):
    return ERR(Enum(1, [args[0].fields[0]], 'Io'))


@model(r'^OnceLock::<.*>::get_or_init::<')
def _(m, callee, args):
    if 'registry' not in m.env:
        m.env['registry'] = HMap()
    return ValRef(('mutex', m.env['registry']))


@model(r'slice::<impl \[(&str|String)\]>::join::<&str>$')
def _(m, callee, args):
    items = deref_all(m, args[0])
    if isinstance(items, RVec):
        items = items.items
    sep = rstr(m, args[1]).cs
    out = []
    for i, it in enumerate(items):
        if i:
            out.extend(sep)
        out.extend(deref_all(m, it).cs)
    return RStr(out)


# ------------------------------------------------------------------ Option / Result with possibly symbolic discriminants
def disc_is(m, e, k):
    """decide (forking when symbolic) whether enum value e has discriminant k"""
    e = deref_all(m, e)
    d = e.disc if isinstance(e, Enum) else e.discriminant(None)
    if is_sym(d):
        return m.ctx.decide(d == z3.BitVecVal(k, d.size()))
    return d == k


def _prepend(pat, fn):
    MODELS.insert(0, (re.compile(pat), fn))


def _opt_or(m, callee, args):
    return args[0] if disc_is(m, args[0], 1) else args[1]
_prepend(r'^Option::<.*>::or$', _opt_or)


def _opt_is_some(m, callee, args):
    return disc_is(m, args[0], 1)
_prepend(r'^Option::<.*>::is_some$', _opt_is_some)


def _opt_is_none(m, callee, args):
    return disc_is(m, args[0], 0)
_prepend(r'^Option::<.*>::is_none$', _opt_is_none)


def _opt_unwrap(m, callee, args):
    if disc_is(m, args[0], 0):
        raise Panic('called `Option::unwrap()` on a `None` value')
    return args[0].fields[0]
_prepend(r'^Option::<.*>::unwrap$', _opt_unwrap)


def _opt_expect(m, callee, args):
    if disc_is(m, args[0], 0):
        raise Panic('expect: ' + ''.join(chr(c) if isinstance(c, int) else '?' for c in deref_all(m, args[1]).cs))
    return args[0].fields[0]
_prepend(r'^Option::<.*>::expect$', _opt_expect)


def _res_expect(m, callee, args):
    if disc_is(m, args[0], 1):
        raise Panic('expect: ' + ''.join(chr(c) if isinstance(c, int) else '?' for c in deref_all(m, args[1]).cs))
    return args[0].fields[0]
_prepend(r'^Result::<.*>::expect$', _res_expect)


def _res_unwrap(m, callee, args):
    if disc_is(m, args[0], 1):
        raise Panic('called `Result::unwrap()` on an `Err` value')
    return args[0].fields[0]
_prepend(r'^Result::<.*>::unwrap$', _res_unwrap)


@model(r'^Option::<.*>::as_ref$|^Option::<.*>::as_deref$|^Option::<.*>::as_mut$')
def _(m, callee, args):
    o = deref_all(m, args[0])
    if isinstance(o, Enum):
        return Enum(o.disc, [ValRef(f) if not isinstance(f, (Ref, ValRef)) else f for f in o.fields], o.name)
    return o


@model(r'^Option::<.*>::unwrap_or_else::<')
def _(m, callee, args):
    if disc_is(m, args[0], 1):
        return args[0].fields[0]
    return m.call_closure(args[1], [])


@model(r'^Option::<.*>::map::<')
def _(m, callee, args):
    if disc_is(m, args[0], 1):
        return some(m.call_closure(args[1], [args[0].fields[0]]))
    return NONE()


@model(r'^Option::<.*>::and_then::<')
def _(m, callee, args):
    if disc_is(m, args[0], 1):
        return m.call_closure(args[1], [args[0].fields[0]])
    return NONE()


@model(r'^Option::<.*>::ok_or_else::<')
def _(m, callee, args):
    if disc_is(m, args[0], 1):
        return OK(args[0].fields[0])
    return ERR(m.call_closure(args[1], []))


@model(r'^Option::<.*>::unwrap_or::<|^Option::<.*>::unwrap_or$')
def _(m, callee, args):
    return args[0].fields[0] if disc_is(m, args[0], 1) else args[1]


@model(r'^Option::<.*>::map_or::<')
def _(m, callee, args):
    if disc_is(m, args[0], 1):
        return m.call_closure(args[2], [args[0].fields[0]])
    return args[1]


@model(r'^Result::<.*>::map_err::<')
def _(m, callee, args):
    if disc_is(m, args[0], 0):
        return args[0]
    return ERR(m.call_closure(args[1], [args[0].fields[0]]))


@model(r'^Result::<.*>::map::<')
def _(m, callee, args):
    if disc_is(m, args[0], 0):
        return OK(m.call_closure(args[1], [args[0].fields[0]]))
    return args[0]


@model(r'^Result::<.*>::err$')
def _(m, callee, args):
    return some(args[0].fields[0]) if disc_is(m, args[0], 1) else NONE()


@model(r'^Result::<.*>::ok$')
def _(m, callee, args):
    return some(args[0].fields[0]) if disc_is(m, args[0], 0) else NONE()


# ------------------------------------------------------------------ str prefix/suffix tests
def _pat_chars(m, pat):
    kind, p = _pat_pred(m, pat)
    return kind, p


@model(r'str::<impl str>::strip_suffix::<')
def _(m, callee, args):
    cs = rstr(m, args[0]).cs
    kind, p = _pat_chars(m, args[1])
    if kind == 'str':
        if len(cs) >= len(p) and match_at(m, cs, len(cs) - len(p), p):
            return some(S(cs[:len(cs) - len(p)]))
        return NONE()
    if cs and any(cmp_char_eq(m, cs[-1], q) for q in p):
        return some(S(cs[:-1]))
    return NONE()


@model(r'str::<impl str>::strip_prefix::<')
def _(m, callee, args):
    cs = rstr(m, args[0]).cs
    kind, p = _pat_chars(m, args[1])
    if kind == 'str':
        if match_at(m, cs, 0, p):
            return some(S(cs[len(p):]))
        return NONE()
    if cs and any(cmp_char_eq(m, cs[0], q) for q in p):
        return some(S(cs[1:]))
    return NONE()


@model(r'str::<impl str>::starts_with::<')
def _(m, callee, args):
    cs = rstr(m, args[0]).cs
    kind, p = _pat_chars(m, args[1])
    if kind == 'str':
        return match_at(m, cs, 0, p)
    return bool(cs) and any(cmp_char_eq(m, cs[0], q) for q in p)


@model(r'str::<impl str>::ends_with::<')
def _(m, callee, args):
    cs = rstr(m, args[0]).cs
    kind, p = _pat_chars(m, args[1])
    if kind == 'str':
        return len(cs) >= len(p) and match_at(m, cs, len(cs) - len(p), p)
    return bool(cs) and any(cmp_char_eq(m, cs[-1], q) for q in p)


@model(r'str::<impl str>::contains::<')
def _(m, callee, args):
    cs = rstr(m, args[0]).cs
    kind, p = _pat_chars(m, args[1])
    if kind == 'str':
        return find(m, cs, p) >= 0
    return any(cmp_char_eq(m, c, q) for c in cs for q in p)


@model(r'str::<impl str>::is_empty$|^String::is_empty$')
def _(m, callee, args):
    return len(rstr(m, args[0]).cs) == 0


# ------------------------------------------------------------------ more iterator adapters (closures run their real MIR)
from .models import blen as _blen

_it_next_base = it_next


def it_next(m, it):      # noqa: F811  -- extends the dispatcher above
    it = deref_all(m, it) if not isinstance(it, (PyIter, Iter)) else it
    if isinstance(it, Iter):
        if it.pos >= len(it.s.cs):
            return None
        c = it.s.cs[it.pos]
        it.pos += 1
        return c if it.kind == 'chars' else (_blen(m, it.s.cs[:it.pos - 1]), c)
    k = it.kind
    if k == 'filter':
        while True:
            v = it_next(m, it.inner)
            if v is None:
                return None
            if truthy(m, m.call_closure(it.closure, [ValRef(v)])):
                return v
    if k == 'filter_map':
        while True:
            v = it_next(m, it.inner)
            if v is None:
                return None
            r = m.call_closure(it.closure, [v])
            if disc_is(m, r, 1):
                return r.fields[0]
    if k == 'flat_map':
        while True:
            if it.cur is not None:
                v = it_next(m, it.cur)
                if v is not None:
                    return v
                it.cur = None
            o = it_next(m, it.inner)
            if o is None:
                return None
            r = m.call_closure(it.closure, [o])
            it.cur = into_iter(m, r)
    if k == 'enumerate':
        v = it_next(m, it.inner)
        if v is None:
            return None
        it.n += 1
        return (it.n - 1, v)
    if k == 'rev':
        if not it.buf_done:
            it.buf = []
            while True:
                v = it_next(m, it.inner)
                if v is None:
                    break
                it.buf.append(v)
            it.buf_done = True
        return it.buf.pop() if it.buf else None
    if k == 'option':
        if it.done:
            return None
        it.done = True
        return it.value
    return _it_next_base(m, it)


models2.iter_next = it_next
globals()['it_next'] = it_next


def truthy(m, v):
    if isinstance(v, bool):
        return v
    if is_sym(v):
        return m.ctx.decide(v)
    raise Unsupported(f'boolean expected, got {v!r}')


def into_iter(m, v):
    v = deref_all(m, v)
    if isinstance(v, (PyIter, Iter)):
        return v
    if isinstance(v, Enum) and v.name in ('Some', 'None', 'Option?', 'Ok', 'Err'):
        # Option / Result as IntoIterator
        if v.name in ('Ok', 'Err'):
            is_some = disc_is(m, v, 0)
        else:
            is_some = disc_is(m, v, 1)
        return PyIter('option', done=not is_some, value=v.fields[0] if (is_some and v.fields) else None)
    if isinstance(v, RVec):
        return PyIter('list', items=list(v.items), pos=0)
    if isinstance(v, list):
        return PyIter('list', items=list(v), pos=0)
    if isinstance(v, BTree):
        return PyIter('list', items=[(k, val) for k, val in v.items], pos=0)
    raise Unsupported(f'into_iter of {v!r}')


def _next_model(m, callee, args):
    v = it_next(m, args[0])
    return NONE() if v is None else some(v)
_prepend(r' as Iterator>::next$', _next_model)


def _into_iter_model(m, callee, args):
    return into_iter(m, args[0])
_prepend(r' as IntoIterator>::into_iter$', _into_iter_model)


@model(r' as Iterator>::all::<')
def _(m, callee, args):
    while True:
        v = it_next(m, args[0])
        if v is None:
            return True
        if not truthy(m, m.call_closure(args[1], [v])):
            return False


@model(r' as Iterator>::any::<')
def _(m, callee, args):
    while True:
        v = it_next(m, args[0])
        if v is None:
            return False
        if truthy(m, m.call_closure(args[1], [v])):
            return True


@model(r' as Iterator>::filter::<')
def _(m, callee, args):
    return PyIter('filter', inner=args[0], closure=args[1])


@model(r' as Iterator>::filter_map::<')
def _(m, callee, args):
    return PyIter('filter_map', inner=args[0], closure=args[1])


@model(r' as Iterator>::flat_map::<')
def _(m, callee, args):
    return PyIter('flat_map', inner=args[0], closure=args[1], cur=None)


@model(r' as Iterator>::enumerate$')
def _(m, callee, args):
    return PyIter('enumerate', inner=args[0], n=0)


@model(r' as Iterator>::rev$')
def _(m, callee, args):
    return PyIter('rev', inner=args[0], buf=None, buf_done=False)


@model(r' as Iterator>::by_ref$')
def _(m, callee, args):
    return args[0]


@model(r' as Iterator>::count$')
def _(m, callee, args):
    n = 0
    while it_next(m, args[0]) is not None:
        n += 1
    return n


@model(r' as Iterator>::fold::<')
def _(m, callee, args):
    acc = args[1]
    while True:
        v = it_next(m, args[0])
        if v is None:
            return acc
        acc = m.call_closure(args[2], [acc, v])


def drain(m, it):
    out = []
    while True:
        v = it_next(m, it)
        if v is None:
            return out
        out.append(v)


@model(r' as Iterator>::collect::<Vec<.*>>$|^<Vec<.*> as FromIterator<.*>>::from_iter::<')
def _(m, callee, args):
    return RVec(drain(m, args[0]))


@model(r' as Iterator>::collect::<String>$')
def _(m, callee, args):
    out = []
    for v in drain(m, args[0]):
        v = deref_all(m, v)
        out.extend(v.cs if isinstance(v, RStr) else [v])
    return RStr(out)


@model(r' as Iterator>::collect::<Result<Vec<.*>, .*>>$')
def _(m, callee, args):
    out = []
    while True:
        v = it_next(m, args[0])
        if v is None:
            return OK(RVec(out))
        if disc_is(m, v, 1):
            return ERR(v.fields[0])
        out.append(v.fields[0])


@model(r'^<Vec<.*> as (std::ops::)?Index<usize>>::index$|^<\[.*\] as (std::ops::)?Index<usize>>::index$')
def _(m, callee, args):
    v = deref_all(m, args[0])
    items = v.items if isinstance(v, RVec) else v
    i = args[1]
    if is_sym(i):
        raise Unsupported('symbolic index')
    if i >= len(items):
        raise Panic(f'index out of bounds: the len is {len(items)} but the index is {i}')
    return ValRef(items[i])


@model(r'^<String as From<&str>>::from$|^<String as From<&String>>::from$|^<str as ToString>::to_string$|^<String as ToString>::to_string$|^<&str as Into<String>>::into$|^<String as Clone>::clone$|^String::from$')
def _(m, callee, args):
    return RStr(list(rstr(m, args[0]).cs))
