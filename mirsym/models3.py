"""prototype models: string searching/splitting, lazy iterator adapters, BTreeMap/BTreeSet, HashMap/HashSet,
Mutex/OnceLock, and an in-memory file system (environment model for export_and_merge)."""
import re
import z3
from .interp import RStr, Enum, Struct, Ref, ValRef, Iter, Panic, is_sym, bv, CH
from .mirparse import Unsupported
from .models import MODELS, model, rstr
from .models2 import PyIter, RVec, deref_all, ceq, str_eq, iter_next as _iter_next2
from . import models2


# ------------------------------------------------------------------ helpers
class PredQ:
    """a char *predicate* used as a str pattern (`s.find(char::is_uppercase)`, `s.split(|c| c == ',')`): compares equal to the chars it
    accepts, so every model that walks a list of pattern chars handles predicates as well"""
    __slots__ = ('fn',)

    def __init__(self, fn):
        self.fn = fn


def cmp_char_eq(m, a, b):
    if isinstance(b, PredQ):
        r = m.call_closure(b.fn, [a])
        return r if isinstance(r, bool) else m.ctx.decide(r)
    if not is_sym(a) and not is_sym(b):
        return a == b
    return m.ctx.decide(bv(a, CH) == bv(b, CH))


def match_at(m, cs, i, pat):
    if i + len(pat) > len(cs):
        return False
    for k, p in enumerate(pat):
        if not cmp_char_eq(m, cs[i + k], p):
            return False
    return True


def find(m, cs, pat, start=0):
    if not pat:
        return start
    i = start
    while i + len(pat) <= len(cs):
        if match_at(m, cs, i, pat):
            return i
        i += 1
    return -1


def split_list(m, cs, pat):
    out, start = [], 0
    while True:
        i = find(m, cs, pat, start)
        if i < 0:
            out.append(cs[start:])
            return out
        out.append(cs[start:i])
        start = i + len(pat)


WS = (32, 9, 10, 11, 12, 13)


def is_ws(m, c):
    if not is_sym(c) and not isinstance(c, int):
        return False            # an uninterpreted piece of text (hole): opaque to character tests -- stated as an assumption by the harness
    if not is_sym(c):
        return c in WS or c in (0x85, 0xA0, 0x1680, 0x2028, 0x2029, 0x3000) or 0x2000 <= c <= 0x200A
    return m.ctx.decide(z3.Or([c == z3.BitVecVal(w, CH) for w in WS]))


def str_lt(m, a, b):
    """lexicographic a < b on code points (== byte order for valid UTF-8)"""
    for x, y in zip(a, b):
        if cmp_char_eq(m, x, y):
            continue
        if not is_sym(x) and not is_sym(y):
            return x < y
        return m.ctx.decide(z3.ULT(bv(x, CH), bv(y, CH)))
    return len(a) < len(b)


def S(v):
    return ValRef(RStr(v))


def some(v):
    return Enum(1, [v], 'Some')


NONE = lambda: Enum(0, [], 'None')
OK = lambda v: Enum(0, [v], 'Ok')
ERR = lambda v: Enum(1, [v], 'Err')


# ------------------------------------------------------------------ iterators (generic)
def it_next(m, it):
    it = deref_all(m, it) if not isinstance(it, PyIter) else it
    k = it.kind
    if k in ('list', 'slice', 'components'):
        if it.pos >= len(it.items):
            return None
        v = it.items[it.pos]
        it.pos += 1
        return ValRef(v) if k == 'slice' else v
    if k == 'map':
        v = it_next(m, it.inner)
        return None if v is None else m.call_closure(it.closure, [v])
    if k == 'skip':
        while it.n > 0:
            it.n -= 1
            if it_next(m, it.inner) is None:
                return None
        return it_next(m, it.inner)
    if k == 'chain':
        if not it.a_done:
            v = it_next(m, it.a)
            if v is not None:
                return v
            it.a_done = True
        return it_next(m, it.b)
    if k == 'peekable':
        if it.peeked is not None:
            v, it.peeked = it.peeked[0], None
            return v
        return it_next(m, it.inner)
    raise Unsupported('iterator kind ' + k)


models2.iter_next = it_next   # share with path models


@model(r' as Iterator>::next$')
def _(m, callee, args):
    v = it_next(m, args[0])
    return NONE() if v is None else some(v)


@model(r' as IntoIterator>::into_iter$')
def _(m, callee, args):
    v = args[0]
    if isinstance(v, BTree):
        return PyIter('list', items=[(k, val) for k, val in v.items], pos=0)
    return v


@model(r' as Iterator>::skip$')
def _(m, callee, args):
    return PyIter('skip', inner=args[0], n=args[1])


@model(r' as Iterator>::chain::<')
def _(m, callee, args):
    b = args[1]
    if not isinstance(deref_all(m, b), (PyIter, Iter)):
        b = into_iter(m, b)            # the argument is any IntoIterator
    return PyIter('chain', a=args[0], b=b, a_done=False)


@model(r' as Iterator>::map::<')
def _(m, callee, args):
    return PyIter('map', inner=args[0], closure=args[1])


@model(r' as Iterator>::peekable$')
def _(m, callee, args):
    return PyIter('peekable', inner=args[0], peeked=None)


@model(r'^Peekable::<.*>::peek$')
def _(m, callee, args):
    it = deref_all(m, args[0])
    if it.peeked is None:
        it.peeked = (it_next(m, it.inner),)
    v = it.peeked[0]
    return NONE() if v is None else some(ValRef(v))


@model(r' as Iterator>::last$')
def _(m, callee, args):
    last = None
    while True:
        v = it_next(m, args[0])
        if v is None:
            break
        last = v
    return NONE() if last is None else some(last)


@model(r'^Option::<.*>::is_some$')
def _(m, callee, args):
    return deref_all(m, args[0]).disc == 1


@model(r'^Option::<.*>::expect$')
def _(m, callee, args):
    if args[0].disc == 0:
        raise Panic('expect: ' + ''.join(chr(c) for c in deref_all(m, args[1]).cs))
    return args[0].fields[0]


# ------------------------------------------------------------------ str
@model(r'str::<impl str>::split_once::<&str>$')
def _(m, callee, args):
    cs, pat = rstr(m, args[0]).cs, rstr(m, args[1]).cs
    i = find(m, cs, pat)
    if i < 0:
        return NONE()
    return some((S(cs[:i]), S(cs[i + len(pat):])))


@model(r'str::<impl str>::split::<&str>$')
def _(m, callee, args):
    cs, pat = rstr(m, args[0]).cs, rstr(m, args[1]).cs
    return PyIter('list', items=[S(p) for p in split_list(m, cs, pat)], pos=0)


@model(r'str::<impl str>::lines$')
def _(m, callee, args):
    cs = rstr(m, args[0]).cs
    parts = split_list(m, cs, [10])
    if parts and not parts[-1]:
        parts.pop()
    out = []
    for p in parts:
        if p and cmp_char_eq(m, p[-1], 13):
            p = p[:-1]
        out.append(S(p))
    return PyIter('list', items=out, pos=0)


@model(r'str::<impl str>::split_whitespace$')
def _(m, callee, args):
    cs = rstr(m, args[0]).cs
    out, cur = [], []
    for c in cs:
        if is_ws(m, c):
            if cur:
                out.append(S(cur))
            cur = []
        else:
            cur.append(c)
    if cur:
        out.append(S(cur))
    return PyIter('list', items=out, pos=0)


def _pat_pred(m, pat):
    """pattern argument -> ('str', chars) | ('chars', [c...])"""
    p = deref_all(m, pat)
    if isinstance(p, RStr):
        return ('str', p.cs)
    if isinstance(p, list):
        return ('chars', p)
    if isinstance(p, int) or is_sym(p):
        return ('chars', [p])
    from .interp import Closure
    if isinstance(p, Closure) or (isinstance(p, tuple) and p and p[0] in ('zst', 'path')):
        return ('chars', [PredQ(('path', p[1]) if isinstance(p, tuple) else p)])
    raise Unsupported(f'pattern {p!r}')


def _trim(m, cs, pat, front, back):
    kind, p = pat
    cs = list(cs)
    if kind == 'str':
        while front and p and match_at(m, cs, 0, p):
            cs = cs[len(p):]
        while back and p and len(cs) >= len(p) and match_at(m, cs, len(cs) - len(p), p):
            cs = cs[:-len(p)]
    else:
        anyeq = lambda c: any(cmp_char_eq(m, c, q) for q in p)
        while front and cs and anyeq(cs[0]):
            cs = cs[1:]
        while back and cs and anyeq(cs[-1]):
            cs = cs[:-1]
    return S(cs)


@model(r'str::<impl str>::trim_start_matches::<')
def _(m, callee, args):
    return _trim(m, rstr(m, args[0]).cs, _pat_pred(m, args[1]), True, False)


@model(r'str::<impl str>::trim_end_matches::<')
def _(m, callee, args):
    return _trim(m, rstr(m, args[0]).cs, _pat_pred(m, args[1]), False, True)


@model(r'str::<impl str>::trim_matches::<')
def _(m, callee, args):
    return _trim(m, rstr(m, args[0]).cs, _pat_pred(m, args[1]), True, True)


# registered before the generic replace::<char> of models.py would be tried: more specific pattern first
@model(r'str::<impl str>::replace::<&str>$')
def _(m, callee, args):
    cs, pat, to = rstr(m, args[0]).cs, rstr(m, args[1]).cs, rstr(m, args[2]).cs
    parts = split_list(m, cs, pat)
    out = []
    for i, p in enumerate(parts):
        if i:
            out.extend(to)
        out.extend(p)
    return RStr(out)


@model(r'^String::push_str$')
def _(m, callee, args):
    r = args[0]
    s = rstr(m, r)
    m.write_place(r.frame, r.place, RStr(s.cs + rstr(m, args[1]).cs))
    return ()


@model(r'^String::len$')
def _(m, callee, args):
    return len(rstr(m, args[0]).cs)


@model(r'^String::as_bytes$|str::<impl str>::as_bytes$')
def _(m, callee, args):
    return ValRef(rstr(m, args[0]))


@model(r'^<&str as PartialOrd>::lt$')
def _(m, callee, args):
    return str_lt(m, rstr(m, deref_all_once(m, args[0])).cs, rstr(m, deref_all_once(m, args[1])).cs)


def deref_all_once(m, v):
    return v


# ------------------------------------------------------------------ ordered collections
class BTree:
    """BTreeMap (items: [(key, value)]) or BTreeSet (items: [(key, None)]), keys = strings, kept sorted"""
    def __init__(self):
        self.items = []

    def locate(self, m, key):
        kc = deref_all(m, key).cs
        for i, (k, _) in enumerate(self.items):
            ec = deref_all(m, k).cs
            if str_eq(m, RStr(kc), RStr(ec)):
                return i, True
            if str_lt(m, kc, ec):
                return i, False
        return len(self.items), False


@model(r'^<BTree(Map|Set)<.*> as Default>::default$')
def _(m, callee, args):
    return BTree()


@model(r'^BTreeMap::<.*>::entry$')
def _(m, callee, args):
    return ('entry', deref_all(m, args[0]), args[1])


@model(r'^std::collections::btree_map::Entry::<.*>::or_default$')
def _(m, callee, args):
    _, tree, key = args[0]
    i, found = tree.locate(m, key)
    if not found:
        tree.items.insert(i, (key, BTree()))
    return ValRef(tree.items[i][1])


@model(r'^BTreeSet::<.*>::insert$')
def _(m, callee, args):
    tree = deref_all(m, args[0])
    i, found = tree.locate(m, args[1])
    if not found:
        tree.items.insert(i, (args[1], None))
    return not found


@model(r'^BTreeSet::<.*>::iter$')
def _(m, callee, args):
    tree = deref_all(m, args[0])
    return PyIter('slice', items=[k for k, _ in tree.items], pos=0)


# ------------------------------------------------------------------ hash collections, mutex, registry
class HMap:
    def __init__(self):
        self.items = []   # [(key RStr, value)]

    def find(self, m, key):
        kc = deref_all(m, key)
        for i, (k, _) in enumerate(self.items):
            if str_eq(m, kc, k):
                return i
        return -1


@model(r'^get_export_paths::')
def _(m, callee, args):
    if 'registry' not in m.env:
        m.env['registry'] = HMap()
    return ValRef(('mutex', m.env['registry']))


@model(r'^std::sync::Mutex::<.*>::lock$')
def _(m, callee, args):
    mu = deref_all(m, args[0])
    m.env['lock_held'] = True
    return OK(('guard', mu[1]))


@model(r'^Result::<.*>::unwrap$')
def _(m, callee, args):
    if args[0].disc != 0:
        raise Panic('called `Result::unwrap()` on an `Err` value')
    return args[0].fields[0]


@model(r'MutexGuard<.*> as (std::ops::)?DerefMut>::deref_mut$|MutexGuard<.*> as (std::ops::)?Deref>::deref$')
def _(m, callee, args):
    return ValRef(deref_all(m, args[0])[1])


@model(r'^HashMap::<.*>::get_mut::<')
def _(m, callee, args):
    hm = deref_all(m, args[0])
    assert hm is not m.env.get('registry') or m.env.get('lock_held'), 'registry touched without the lock'
    i = hm.find(m, args[1])
    return NONE() if i < 0 else some(ValRef(hm.items[i][1]))


@model(r'^HashMap::<.*>::insert$')
def _(m, callee, args):
    hm = deref_all(m, args[0])
    assert hm is not m.env.get('registry') or m.env.get('lock_held'), 'registry touched without the lock'
    i = hm.find(m, args[1])
    if i >= 0:
        old = hm.items[i][1]
        hm.items[i] = (hm.items[i][0], args[2])
        return some(old)
    hm.items.append((deref_all(m, args[1]), args[2]))
    return NONE()


@model(r'^HashSet::<String>::new$')
def _(m, callee, args):
    return HMap()


@model(r'^HashSet::<String>::insert$')
def _(m, callee, args):
    hs = deref_all(m, args[0])
    if hs.find(m, args[1]) >= 0:
        return False
    hs.items.append((deref_all(m, args[1]), None))
    return True


@model(r'^HashSet::<String>::contains::<')
def _(m, callee, args):
    return deref_all(m, args[0]).find(m, args[1]) >= 0


# ------------------------------------------------------------------ file system model
class PyFile:
    def __init__(self, key):
        self.key = key
        self.cur = 0


def fs_key(m, p):
    return tuple(deref_all(m, p).cs)   # prototype: concrete paths only


@model(r'^File::create::<')
def _(m, callee, args):
    assert m.env.get('lock_held'), 'file touched without the lock'
    k = fs_key(m, args[0])
    m.env['fs'][k] = []
    m.env['fs_log'].append(('create', k))
    return OK(PyFile(k))


@model(r'^OpenOptions::new$')
def _(m, callee, args):
    return ('openopts',)


@model(r'^OpenOptions::(read|write)$')
def _(m, callee, args):
    return args[0]


@model(r'^OpenOptions::open::<')
def _(m, callee, args):
    assert m.env.get('lock_held'), 'file touched without the lock'
    k = fs_key(m, args[1])
    if k not in m.env['fs']:
        return ERR(('io', 'ENOENT'))
    return OK(PyFile(k))


@model(r'^<File as std::io::Write>::write_all$')
def _(m, callee, args):
    f = deref_all(m, args[0])
    data = deref_all(m, args[1]).cs
    cur = m.env['fs'][f.key]
    m.env['fs'][f.key] = cur[:f.cur] + list(data) + cur[f.cur + len(data):]
    f.cur += len(data)
    return OK(())


@model(r'^File::sync_all$')
def _(m, callee, args):
    return OK(())


@model(r'^File::metadata$')
def _(m, callee, args):
    return OK(('meta', len(m.env['fs'][deref_all(m, args[0]).key])))


@model(r'^Metadata::len$')
def _(m, callee, args):
    return deref_all(m, args[0])[1]


@model(r'^<File as std::io::Read>::read_to_string$')
def _(m, callee, args):
    f = deref_all(m, args[0])
    r = args[1]
    data = m.env['fs'][f.key][f.cur:]
    m.write_place(r.frame, r.place, RStr(rstr(m, r).cs + data))
    f.cur += len(data)
    return OK(len(data))


@model(r'^<File as Seek>::seek$')
def _(m, callee, args):
    f = deref_all(m, args[0])
    f.cur = args[1].fields[0]
    return OK(f.cur)


@model(r'^<Result<.*> as FromResidual<Result<Infallible, std::io::Error>>>::from_residual$')
def _(m, callee, args):
    return ERR(Enum(1, [args[0].fields[0]], 'Io'))


def _oncelock_key(m, callee, arg):
    d = arg
    while isinstance(d, (Ref, ValRef)) and not isinstance(d, tuple):
        nd = m.read_place(d.frame, d.place) if isinstance(d, Ref) else d.v
        if nd is d:
            break
        d = nd
    tag = repr(d) if isinstance(d, tuple) else ''
    return re.sub(r'::(get_or_init|get|set|get_mut|take).*$', '', callee) + '|' + tag


@model(r'^OnceLock::<.*>::(get_or_init::<.*|get|set|new)$')
def _(m, callee, args):
    """process-global cells: the export registry (a Mutex<HashMap<PathBuf, ..>>) keeps its dedicated model; any other OnceLock is a
    plain cell that lives as long as the modelled process (m.env), so a value cached on first use is seen by later calls"""
    op = re.search(r'::(get_or_init|get|set|new)', callee).group(1)
    if op == 'new':
        return ('oncelock-static',)
    if 'Mutex<HashMap<PathBuf' in callee or 'Mutex<std::collections::HashMap<' in callee:
        if 'registry' not in m.env:
            m.env['registry'] = HMap()
        return ValRef(('mutex', m.env['registry'])) if op == 'get_or_init' else some(ValRef(('mutex', m.env['registry'])))
    cells = m.env.setdefault('oncelocks', {})
    key = _oncelock_key(m, callee, args[0])
    if op == 'get':
        return some(ValRef(cells[key])) if key in cells else NONE()
    if op == 'set':
        if key in cells:
            return ERR(args[1])
        cells[key] = args[1]
        return OK(())
    if key not in cells:
        cells[key] = m.call_closure(args[1], [])
    return ValRef(cells[key])


@model(r'slice::<impl \[(&str|String)\]>::join::<&str>$')
def _(m, callee, args):
    items = deref_all(m, args[0])
    if isinstance(items, RVec):
        items = items.items
    sep = rstr(m, args[1]).cs
    out = []
    for i, it in enumerate(items):
        if i:
            out.extend(sep)
        out.extend(deref_all(m, it).cs)
    return RStr(out)


# ------------------------------------------------------------------ Option / Result with possibly symbolic discriminants
def disc_is(m, e, k):
    """decide (forking when symbolic) whether enum value e has discriminant k"""
    e = deref_all(m, e)
    d = e.disc if isinstance(e, Enum) else e.discriminant(None)
    if is_sym(d):
        return m.ctx.decide(d == z3.BitVecVal(k, d.size()))
    return d == k


def _prepend(pat, fn):
    MODELS.insert(0, (re.compile(pat), fn))


def _opt_or(m, callee, args):
    return args[0] if disc_is(m, args[0], 1) else args[1]
_prepend(r'^Option::<.*>::or$', _opt_or)


def _opt_is_some(m, callee, args):
    return disc_is(m, args[0], 1)
_prepend(r'^Option::<.*>::is_some$', _opt_is_some)


def _opt_is_none(m, callee, args):
    return disc_is(m, args[0], 0)
_prepend(r'^Option::<.*>::is_none$', _opt_is_none)


def _opt_unwrap(m, callee, args):
    if disc_is(m, args[0], 0):
        raise Panic('called `Option::unwrap()` on a `None` value')
    return args[0].fields[0]
_prepend(r'^Option::<.*>::unwrap$', _opt_unwrap)


def _opt_expect(m, callee, args):
    if disc_is(m, args[0], 0):
        raise Panic('expect: ' + ''.join(chr(c) if isinstance(c, int) else '?' for c in deref_all(m, args[1]).cs))
    return args[0].fields[0]
_prepend(r'^Option::<.*>::expect$', _opt_expect)


def _res_expect(m, callee, args):
    if disc_is(m, args[0], 1):
        raise Panic('expect: ' + ''.join(chr(c) if isinstance(c, int) else '?' for c in deref_all(m, args[1]).cs))
    return args[0].fields[0]
_prepend(r'^Result::<.*>::expect$', _res_expect)


def _res_unwrap(m, callee, args):
    if disc_is(m, args[0], 1):
        raise Panic('called `Result::unwrap()` on an `Err` value')
    return args[0].fields[0]
_prepend(r'^Result::<.*>::unwrap$', _res_unwrap)


@model(r'^Option::<.*>::as_ref$|^Option::<.*>::as_deref$|^Option::<.*>::as_mut$')
def _(m, callee, args):
    o = deref_all(m, args[0])
    if isinstance(o, Enum):
        return Enum(o.disc, [ValRef(f) if not isinstance(f, (Ref, ValRef)) else f for f in o.fields], o.name)
    return o


@model(r'^Option::<.*>::unwrap_or_else::<')
def _(m, callee, args):
    if disc_is(m, args[0], 1):
        return args[0].fields[0]
    return m.call_closure(args[1], [])


@model(r'^Option::<.*>::map::<')
def _(m, callee, args):
    if disc_is(m, args[0], 1):
        return some(m.call_closure(args[1], [args[0].fields[0]]))
    return NONE()


@model(r'^Option::<.*>::and_then::<')
def _(m, callee, args):
    if disc_is(m, args[0], 1):
        return m.call_closure(args[1], [args[0].fields[0]])
    return NONE()


@model(r'^Option::<.*>::ok_or_else::<')
def _(m, callee, args):
    if disc_is(m, args[0], 1):
        return OK(args[0].fields[0])
    return ERR(m.call_closure(args[1], []))


@model(r'^Option::<.*>::unwrap_or::<|^Option::<.*>::unwrap_or$')
def _(m, callee, args):
    return args[0].fields[0] if disc_is(m, args[0], 1) else args[1]


@model(r'^Option::<.*>::map_or::<')
def _(m, callee, args):
    if disc_is(m, args[0], 1):
        return m.call_closure(args[2], [args[0].fields[0]])
    return args[1]


@model(r'^Result::<.*>::map_err::<')
def _(m, callee, args):
    if disc_is(m, args[0], 0):
        return args[0]
    return ERR(m.call_closure(args[1], [args[0].fields[0]]))


@model(r'^Result::<.*>::map::<')
def _(m, callee, args):
    if disc_is(m, args[0], 0):
        return OK(m.call_closure(args[1], [args[0].fields[0]]))
    return args[0]


@model(r'^Result::<.*>::err$')
def _(m, callee, args):
    return some(args[0].fields[0]) if disc_is(m, args[0], 1) else NONE()


@model(r'^Result::<.*>::ok$')
def _(m, callee, args):
    return some(args[0].fields[0]) if disc_is(m, args[0], 0) else NONE()


# ------------------------------------------------------------------ str prefix/suffix tests
def _pat_chars(m, pat):
    kind, p = _pat_pred(m, pat)
    return kind, p


@model(r'str::<impl str>::strip_suffix::<')
def _(m, callee, args):
    cs = rstr(m, args[0]).cs
    kind, p = _pat_chars(m, args[1])
    if kind == 'str':
        if len(cs) >= len(p) and match_at(m, cs, len(cs) - len(p), p):
            return some(S(cs[:len(cs) - len(p)]))
        return NONE()
    if cs and any(cmp_char_eq(m, cs[-1], q) for q in p):
        return some(S(cs[:-1]))
    return NONE()


@model(r'str::<impl str>::strip_prefix::<')
def _(m, callee, args):
    cs = rstr(m, args[0]).cs
    kind, p = _pat_chars(m, args[1])
    if kind == 'str':
        if match_at(m, cs, 0, p):
            return some(S(cs[len(p):]))
        return NONE()
    if cs and any(cmp_char_eq(m, cs[0], q) for q in p):
        return some(S(cs[1:]))
    return NONE()


@model(r'str::<impl str>::starts_with::<')
def _(m, callee, args):
    cs = rstr(m, args[0]).cs
    kind, p = _pat_chars(m, args[1])
    if kind == 'str':
        return match_at(m, cs, 0, p)
    return bool(cs) and any(cmp_char_eq(m, cs[0], q) for q in p)


@model(r'str::<impl str>::ends_with::<')
def _(m, callee, args):
    cs = rstr(m, args[0]).cs
    kind, p = _pat_chars(m, args[1])
    if kind == 'str':
        return len(cs) >= len(p) and match_at(m, cs, len(cs) - len(p), p)
    return bool(cs) and any(cmp_char_eq(m, cs[-1], q) for q in p)


@model(r'str::<impl str>::contains::<')
def _(m, callee, args):
    cs = rstr(m, args[0]).cs
    kind, p = _pat_chars(m, args[1])
    if kind == 'str':
        return find(m, cs, p) >= 0
    return any(cmp_char_eq(m, c, q) for c in cs for q in p)


@model(r'str::<impl str>::is_empty$|^String::is_empty$')
def _(m, callee, args):
    return len(rstr(m, args[0]).cs) == 0


# ------------------------------------------------------------------ more iterator adapters (closures run their real MIR)
from .models import blen as _blen

_it_next_base = it_next


def it_next(m, it):      # noqa: F811  -- extends the dispatcher above
    it = deref_all(m, it) if not isinstance(it, (PyIter, Iter)) else it
    if isinstance(it, Struct) and len(it.fields) == 2 and all(isinstance(x, int) and not isinstance(x, bool) for x in it.fields):
        # core::ops::Range<integer> used as an iterator in place
        if it.fields[0] >= it.fields[1]:
            return None
        it.fields[0] += 1
        return it.fields[0] - 1
    if isinstance(it, Iter):
        if it.pos >= len(it.s.cs):
            return None
        c = it.s.cs[it.pos]
        it.pos += 1
        return c if it.kind == 'chars' else (_blen(m, it.s.cs[:it.pos - 1]), c)
    k = it.kind
    if k == 'filter':
        while True:
            v = it_next(m, it.inner)
            if v is None:
                return None
            if truthy(m, m.call_closure(it.closure, [ValRef(v)])):
                return v
    if k == 'filter_map':
        while True:
            v = it_next(m, it.inner)
            if v is None:
                return None
            r = m.call_closure(it.closure, [v])
            if disc_is(m, r, 1):
                return r.fields[0]
    if k == 'flat_map':
        while True:
            if it.cur is not None:
                v = it_next(m, it.cur)
                if v is not None:
                    return v
                it.cur = None
            o = it_next(m, it.inner)
            if o is None:
                return None
            r = m.call_closure(it.closure, [o])
            it.cur = into_iter(m, r)
    if k == 'enumerate':
        v = it_next(m, it.inner)
        if v is None:
            return None
        it.n += 1
        return (it.n - 1, v)
    if k == 'rev':
        if not it.buf_done:
            it.buf = []
            while True:
                v = it_next(m, it.inner)
                if v is None:
                    break
                it.buf.append(v)
            it.buf_done = True
        return it.buf.pop() if it.buf else None
    if k == 'option':
        if it.done:
            return None
        it.done = True
        return it.value
    return _it_next_base(m, it)


models2.iter_next = it_next
globals()['it_next'] = it_next


def truthy(m, v):
    if isinstance(v, bool):
        return v
    if is_sym(v):
        return m.ctx.decide(v)
    raise Unsupported(f'boolean expected, got {v!r}')


def into_iter(m, v):
    v = deref_all(m, v)
    if isinstance(v, (PyIter, Iter)):
        return v
    if isinstance(v, Enum) and v.name in ('Some', 'None', 'Option?', 'Ok', 'Err'):
        # Option / Result as IntoIterator
        if v.name in ('Ok', 'Err'):
            is_some = disc_is(m, v, 0)
        else:
            is_some = disc_is(m, v, 1)
        return PyIter('option', done=not is_some, value=v.fields[0] if (is_some and v.fields) else None)
    if isinstance(v, RVec):
        return PyIter('list', items=list(v.items), pos=0)
    if isinstance(v, list):
        return PyIter('list', items=list(v), pos=0)
    if isinstance(v, BTree):
        return PyIter('list', items=[(k, val) for k, val in v.items], pos=0)
    raise Unsupported(f'into_iter of {v!r}')


def _next_model(m, callee, args):
    v = it_next(m, args[0])
    return NONE() if v is None else some(v)
_prepend(r' as Iterator>::next$', _next_model)


def _into_iter_model(m, callee, args):
    return into_iter(m, args[0])
_prepend(r' as IntoIterator>::into_iter$', _into_iter_model)


@model(r' as Iterator>::all::<')
def _(m, callee, args):
    while True:
        v = it_next(m, args[0])
        if v is None:
            return True
        if not truthy(m, m.call_closure(args[1], [v])):
            return False


@model(r' as Iterator>::any::<')
def _(m, callee, args):
    while True:
        v = it_next(m, args[0])
        if v is None:
            return False
        if truthy(m, m.call_closure(args[1], [v])):
            return True


@model(r' as Iterator>::filter::<')
def _(m, callee, args):
    return PyIter('filter', inner=args[0], closure=args[1])


@model(r' as Iterator>::filter_map::<')
def _(m, callee, args):
    return PyIter('filter_map', inner=args[0], closure=args[1])


@model(r' as Iterator>::flat_map::<')
def _(m, callee, args):
    return PyIter('flat_map', inner=args[0], closure=args[1], cur=None)


@model(r' as Iterator>::enumerate$')
def _(m, callee, args):
    return PyIter('enumerate', inner=args[0], n=0)


@model(r' as Iterator>::rev$')
def _(m, callee, args):
    return PyIter('rev', inner=args[0], buf=None, buf_done=False)


@model(r' as Iterator>::by_ref$')
def _(m, callee, args):
    return args[0]


@model(r' as Iterator>::count$')
def _(m, callee, args):
    n = 0
    while it_next(m, args[0]) is not None:
        n += 1
    return n


@model(r' as Iterator>::fold::<')
def _(m, callee, args):
    acc = args[1]
    while True:
        v = it_next(m, args[0])
        if v is None:
            return acc
        acc = m.call_closure(args[2], [acc, v])


def drain(m, it):
    out = []
    while True:
        v = it_next(m, it)
        if v is None:
            return out
        out.append(v)


@model(r' as Iterator>::collect::<Vec<.*>>$|^<Vec<.*> as FromIterator<.*>>::from_iter::<')
def _(m, callee, args):
    return RVec(drain(m, args[0]))


@model(r' as Iterator>::collect::<String>$')
def _(m, callee, args):
    out = []
    for v in drain(m, args[0]):
        v = deref_all(m, v)
        out.extend(v.cs if isinstance(v, RStr) else [v])
    return RStr(out)


@model(r' as Iterator>::collect::<Result<Vec<.*>, .*>>$')
def _(m, callee, args):
    out = []
    while True:
        v = it_next(m, args[0])
        if v is None:
            return OK(RVec(out))
        if disc_is(m, v, 1):
            return ERR(v.fields[0])
        out.append(v.fields[0])


@model(r'^<Vec<.*> as (std::ops::)?Index<usize>>::index$|^<\[.*\] as (std::ops::)?Index<usize>>::index$')
def _(m, callee, args):
    v = deref_all(m, args[0])
    items = v.items if isinstance(v, RVec) else v
    i = args[1]
    if is_sym(i):
        raise Unsupported('symbolic index')
    if i >= len(items):
        raise Panic(f'index out of bounds: the len is {len(items)} but the index is {i}')
    return ValRef(items[i])


@model(r'^<String as From<&str>>::from$|^<String as From<&String>>::from$|^<str as ToString>::to_string$|^<String as ToString>::to_string$|^<&str as Into<String>>::into$|^<String as Clone>::clone$|^String::from$')
def _(m, callee, args):
    return RStr(list(rstr(m, args[0]).cs))


@model(r'^<Option<.*> as (std::ops::)?Try>::branch$')
def _(m, callee, args):
    if disc_is(m, args[0], 1):
        return Enum(0, [args[0].fields[0]], 'Continue')
    return Enum(1, [NONE()], 'Break')


@model(r'^<Option<.*> as FromResidual<Option<Infallible>>>::from_residual$')
def _(m, callee, args):
    return NONE()


@model(r' as Iterator>::collect::<BTreeMap<.*>>$')
def _(m, callee, args):
    t = BTree()
    for kv in drain(m, args[0]):
        k, v = kv
        i, found = t.locate(m, k)
        if found:
            t.items[i] = (t.items[i][0], v)      # BTreeMap::from_iter keeps the last value for equal keys
        else:
            t.items.insert(i, (k, v))
    return t


@model(r'^<TypeId as PartialEq>::(eq|ne)$')
def _(m, callee, args):
    a, b = deref_all(m, args[0]), deref_all(m, args[1])
    same = a == b
    return same if callee.endswith('eq') else not same


# ------------------------------------------------------------------ hash collections: lookup is order-free, ITERATION ORDER IS SYMBOLIC
import itertools as _it

_perm_counter = [0]


def hash_order(m, items):
    """iteration order of a hash collection: any permutation (decided by the solver as a case split)"""
    n = len(items)
    if n <= 1:
        return list(items)
    if n > 5:
        raise Unsupported('hash collection with more than 5 entries is iterated')
    perms = list(_it.permutations(range(n)))
    _perm_counter[0] += 1
    v = z3.Int(f'hash_order#{m.env.setdefault("hash_iter_count", 0)}')
    m.env['hash_iter_count'] += 1
    p = perms[m.ctx.pick(v, len(perms))]
    m.env.setdefault('hash_iterations', []).append(n)
    return [items[i] for i in p]


def _hfind(m, hm, key):
    k = deref_all(m, key)
    for i, (ek, _) in enumerate(hm.items):
        ek = deref_all(m, ek)
        if isinstance(k, RStr) and isinstance(ek, RStr):
            if str_eq(m, k, ek):
                return i
        elif not isinstance(k, RStr) and not isinstance(ek, RStr) and k == ek:
            return i
    return -1


HMap.find = lambda self, m, key: _hfind(m, self, key)


@model(r'^<Hash(Map|Set)<.*> as Default>::default$|^Hash(Map|Set)::<.*>::new$|^Hash(Map|Set)::<.*>::with_capacity$')
def _(m, callee, args):
    return HMap()


@model(r'^HashSet::<.*>::insert$')
def _(m, callee, args):
    hs = deref_all(m, args[0])
    if hs.find(m, args[1]) >= 0:
        return False
    hs.items.append((args[1], None))
    return True


@model(r'^HashSet::<.*>::contains::<')
def _(m, callee, args):
    return deref_all(m, args[0]).find(m, args[1]) >= 0


@model(r'^HashMap::<.*>::entry$')
def _(m, callee, args):
    return ('hentry', deref_all(m, args[0]), args[1])


@model(r'^std::collections::hash_map::Entry::<.*>::or_default$')
def _(m, callee, args):
    _, hm, key = args[0]
    i = hm.find(m, key)
    if i < 0:
        # the value type is a collection in every use in ts-rs (BTreeSet / HashSet)
        hm.items.append((key, HMap() if 'HashSet' in callee else BTree()))
        i = len(hm.items) - 1
    return ValRef(hm.items[i][1])


@model(r'^HashMap::<.*>::contains_key::<')
def _(m, callee, args):
    return deref_all(m, args[0]).find(m, args[1]) >= 0


@model(r'^HashMap::<.*>::get::<')
def _(m, callee, args):
    hm = deref_all(m, args[0])
    i = hm.find(m, args[1])
    return NONE() if i < 0 else some(ValRef(hm.items[i][1]))


@model(r'^Hash(Map|Set)::<.*>::(iter|into_iter|keys|values)$|^<&?Hash(Map|Set)<.*> as IntoIterator>::into_iter$')
def _(m, callee, args):
    h = deref_all(m, args[0])
    order = hash_order(m, h.items)
    if 'HashSet' in callee.split(' as ')[0] or callee.startswith('HashSet'):
        return PyIter('list', items=[k for k, _ in order], pos=0)
    if callee.endswith('keys'):
        return PyIter('list', items=[k for k, _ in order], pos=0)
    if callee.endswith('values'):
        return PyIter('list', items=[v for _, v in order], pos=0)
    return PyIter('list', items=[(k, v) for k, v in order], pos=0)


_into_iter_prev = into_iter


def into_iter(m, v):      # noqa: F811
    d = deref_all(m, v)
    if isinstance(d, HMap):
        order = hash_order(m, d.items)
        if all(val is None for _, val in d.items):
            return PyIter('list', items=[k for k, _ in order], pos=0)
        return PyIter('list', items=[(k, val) for k, val in order], pos=0)
    return _into_iter_prev(m, v)


globals()['into_iter'] = into_iter


@model(r' as Iterator>::collect::<HashMap<.*>>$')
def _(m, callee, args):
    h = HMap()
    for k, v in drain(m, args[0]):
        i = h.find(m, k)
        if i >= 0:
            h.items[i] = (h.items[i][0], v)
        else:
            h.items.append((k, v))
    return h


@model(r' as Iterator>::collect::<HashSet<.*>>$')
def _(m, callee, args):
    h = HMap()
    for k in drain(m, args[0]):
        if h.find(m, k) < 0:
            h.items.append((k, None))
    return h


# ------------------------------------------------------------------ file system model, second generation (directories, errno)
class FSModel:
    """nodes: {absolute normalised path string: ['file', [chars]] | ['dir']}; '/' always exists"""

    def __init__(self, cwd='/tmp'):
        self.nodes = {'/': ['dir']}
        self.cwd = cwd
        self.log = []
        self.mkdirs(cwd)

    def resolve(self, m, p):
        cs = deref_all(m, p)
        cs = cs.cs if isinstance(cs, RStr) else cs
        if any(is_sym(c) for c in cs):
            raise Unsupported('symbolic path reaches the file system model')
        s = ''.join(chr(c) for c in cs)
        if not s.startswith('/'):
            s = self.cwd.rstrip('/') + '/' + s
        out = []
        for part in s.split('/'):
            if part in ('', '.'):
                continue
            if part == '..':
                if out:
                    out.pop()
                continue
            out.append(part)
        return self.follow('/' + '/'.join(out))

    def follow(self, path):
        """replace directory symlinks (`['link', target]` nodes) on the way by their targets; the lexical treatment of `..` before this
        step is the pinned code's own (path::absolute is lexical), a `..` behind a link is outside the model"""
        for _ in range(8):
            parts = [x for x in path.split('/') if x]
            cur = ''
            for i, part in enumerate(parts):
                cur += '/' + part
                n = self.nodes.get(cur)
                if n is not None and n[0] == 'link':
                    path = n[1].rstrip('/') + ''.join('/' + q for q in parts[i + 1:])
                    break
            else:
                return path
        raise Unsupported('symlink loop')

    @staticmethod
    def parent(path):
        return path.rsplit('/', 1)[0] or '/'

    def mkdirs(self, path):
        """create_dir_all: returns None or an errno name"""
        cur = ''
        for part in [x for x in path.split('/') if x]:
            cur += '/' + part
            n = self.nodes.get(cur)
            if n is None:
                self.nodes[cur] = ['dir']
            elif n[0] != 'dir':
                return 'ENOTDIR' if cur != path else 'EEXIST'
        return None

    def check_parent(self, path):
        par = self.parent(path)
        # walk the ancestors: a regular file on the way is ENOTDIR, a missing one ENOENT
        cur = ''
        for part in [x for x in par.split('/') if x]:
            cur += '/' + part
            n = self.nodes.get(cur)
            if n is None:
                return 'ENOENT'
            if n[0] != 'dir':
                return 'ENOTDIR'
        return None

    def snapshot(self):
        return {k: (v[0], ''.join(chr(c) if isinstance(c, int) else '?' for c in v[1]) if v[0] == 'file' else (v[1] if v[0] == 'link' else None))
                for k, v in sorted(self.nodes.items())}


def _fs(m):
    if not isinstance(m.env.get('fs'), FSModel):
        raise Unsupported('file system model not installed')
    return m.env['fs']


def io_err(kind):
    return ('io', kind)


class File2:
    def __init__(self, path):
        self.path = path
        self.cur = 0


def _f2_create(m, callee, args):
    fs = m.env.get('fs')
    if not isinstance(fs, FSModel):
        return None
    assert m.env.get('lock_held', True), 'file touched without the lock'
    p = fs.resolve(m, args[0])
    e = fs.check_parent(p)
    if e:
        return ERR(io_err(e))
    n = fs.nodes.get(p)
    if n is not None and n[0] == 'dir':
        return ERR(io_err('EISDIR'))
    fs.nodes[p] = ['file', []]
    fs.log.append(('create', p))
    return OK(File2(p))


def _f2_open(m, callee, args):
    fs = m.env.get('fs')
    if not isinstance(fs, FSModel):
        return None
    assert m.env.get('lock_held', True), 'file touched without the lock'
    p = fs.resolve(m, args[1])
    e = fs.check_parent(p)
    if e:
        return ERR(io_err(e))
    n = fs.nodes.get(p)
    if n is None:
        return ERR(io_err('ENOENT'))
    if n[0] == 'dir':
        return ERR(io_err('EISDIR'))
    fs.log.append(('open', p))
    return OK(File2(p))


def _wrap_fs(pat, new):
    """FSModel-aware version first; falls back to the first-generation dict model when no FSModel is installed"""
    rx = re.compile(pat)
    old = None
    for p_, f in MODELS:
        if p_.pattern == pat:
            old = f
            break

    def both(m, callee, args):
        r = new(m, callee, args)
        if r is None:
            if old is None:
                raise Unsupported('no file system model for ' + callee)
            return old(m, callee, args)
        return r
    MODELS.insert(0, (rx, both))


_wrap_fs(r'^File::create::<', _f2_create)
_wrap_fs(r'^OpenOptions::open::<', _f2_open)


def _f2(fn):
    def w(m, callee, args):
        f = deref_all(m, args[0])
        if not isinstance(f, File2):
            return None
        return fn(m, f, args)
    return w


def _f2_write_all(m, f, args):
    fs = _fs(m)
    data = deref_all(m, args[1])
    data = data.cs if isinstance(data, RStr) else data
    cur = fs.nodes[f.path][1]
    fs.nodes[f.path][1] = cur[:f.cur] + list(data) + cur[f.cur + len(data):]
    f.cur += len(data)
    fs.log.append(('write', f.path))
    return OK(())


def _f2_read_to_string(m, f, args):
    fs = _fs(m)
    r = args[1]
    data = fs.nodes[f.path][1][f.cur:]
    m.write_place(r.frame, r.place, RStr(rstr(m, r).cs + data))
    f.cur += len(data)
    return OK(len(data))


_wrap_fs(r'^<File as std::io::Write>::write_all$', _f2(_f2_write_all))
_wrap_fs(r'^File::sync_all$', _f2(lambda m, f, a: OK(())))
_wrap_fs(r'^File::metadata$', _f2(lambda m, f, a: OK(('meta', len(_fs(m).nodes[f.path][1])))))
_wrap_fs(r'^<File as std::io::Read>::read_to_string$', _f2(_f2_read_to_string))


def _f2_seek(m, f, args):
    f.cur = args[1].fields[0]
    return OK(f.cur)


_wrap_fs(r'^<File as Seek>::seek$', _f2(_f2_seek))


@model(r'^create_dir_all::<|^std::fs::create_dir_all::<')
def _(m, callee, args):
    fs = _fs(m)
    p = fs.resolve(m, args[0])
    e = fs.mkdirs(p)
    if e:
        return ERR(io_err(e))
    return OK(())


@model(r'^<ExportError as From<std::io::Error>>::from$')
def _(m, callee, args):
    return Enum(1, [args[0]], 'Io')


# ------------------------------------------------------------------ breadth: common std functions a small patch is likely to reach for
@model(r'^<(Path|str|OsStr) as ToOwned>::to_owned$|^Path::to_path_buf$|^PathBuf::as_path$|^<PathBuf as From<.*>>::from$|^Path::as_os_str$|^PathBuf::into_os_string$|^<(Path|PathBuf) as AsRef<.*>>::as_ref$|^<PathBuf as Borrow<Path>>::borrow$|^String::as_mut_str$|^String::into_boxed_str$|^<str as AsRef<.*>>::as_ref$|^<String as AsRef<.*>>::as_ref$|^<String as Borrow<str>>::borrow$')
def _(m, callee, args):
    s = rstr(m, args[0])
    if 'to_owned' in callee or 'to_path_buf' in callee or 'From' in callee or 'into_' in callee:
        return RStr(list(s.cs))
    return ValRef(s)


@model(r'^PathBuf::new$')
def _(m, callee, args):
    return RStr([])


@model(r'^PathBuf::push::<')
def _(m, callee, args):
    r = args[0]
    s = rstr(m, r)
    m.write_place(r.frame, r.place, RStr(models2.path_push(m, s.cs, rstr(m, args[1]).cs)))
    return ()


@model(r'^Path::is_absolute$|^Path::has_root$')
def _(m, callee, args):
    cs = rstr(m, args[0]).cs
    return bool(cs) and models2.ceq(m, cs[0], 47)


@model(r'^Path::is_relative$')
def _(m, callee, args):
    cs = rstr(m, args[0]).cs
    return not (bool(cs) and models2.ceq(m, cs[0], 47))


@model(r'^Path::starts_with::<')
def _(m, callee, args):
    a = models2.components(m, rstr(m, args[0]))
    b = models2.components(m, rstr(m, args[1]))
    if len(b) > len(a):
        return False
    for x, y in zip(a, b):
        if x.disc != y.disc or (x.disc == 4 and not str_eq(m, x.fields[0].v, y.fields[0].v)):
            return False
    return True


@model(r'^Path::extension$|^Path::file_stem$')
def _(m, callee, args):
    comps_ = models2.components(m, rstr(m, args[0]))
    if not comps_ or comps_[-1].disc != 4:
        return NONE()
    name = comps_[-1].fields[0].v.cs
    dots = [i for i, c in enumerate(name) if models2.ceq(m, c, 46)]
    if not dots or dots[-1] == 0:
        return some(S(name)) if callee.endswith('file_stem') else NONE()
    i = dots[-1]
    return some(S(name[:i])) if callee.endswith('file_stem') else some(S(name[i + 1:]))


@model(r'str::<impl str>::trim$|str::<impl str>::trim_start$|str::<impl str>::trim_end$')
def _(m, callee, args):
    cs = list(rstr(m, args[0]).cs)
    if not callee.endswith('trim_end'):
        while cs and is_ws(m, cs[0]):
            cs = cs[1:]
    if not callee.endswith('trim_start'):
        while cs and is_ws(m, cs[-1]):
            cs = cs[:-1]
    return S(cs)


@model(r'str::<impl str>::find::<')
def _(m, callee, args):
    cs = rstr(m, args[0]).cs
    kind, p = _pat_pred(m, args[1])
    if kind == 'str':
        i = find(m, cs, p)
    else:
        i = -1
        for k, c in enumerate(cs):
            if any(cmp_char_eq(m, c, q) for q in p):
                i = k
                break
    if i < 0:
        return NONE()
    return some(_blen(m, cs[:i]))


@model(r'str::<impl str>::rfind::<')
def _(m, callee, args):
    cs = rstr(m, args[0]).cs
    kind, p = _pat_pred(m, args[1])
    best = -1
    if kind == 'str':
        for k in range(len(cs) - len(p), -1, -1):
            if match_at(m, cs, k, p):
                best = k
                break
    else:
        for k in range(len(cs) - 1, -1, -1):
            if any(cmp_char_eq(m, cs[k], q) for q in p):
                best = k
                break
    return NONE() if best < 0 else some(_blen(m, cs[:best]))


@model(r'str::<impl str>::split::<char>$|str::<impl str>::split::<&\[char')
def _(m, callee, args):
    cs = rstr(m, args[0]).cs
    kind, p = _pat_pred(m, args[1])
    out, cur = [], []
    for c in cs:
        if any(cmp_char_eq(m, c, q) for q in p):
            out.append(S(cur))
            cur = []
        else:
            cur.append(c)
    out.append(S(cur))
    return PyIter('list', items=out, pos=0)


@model(r'str::<impl str>::rsplit_once::<')
def _(m, callee, args):
    cs = rstr(m, args[0]).cs
    kind, p = _pat_pred(m, args[1])
    if kind != 'str':
        p = None
    for k in range(len(cs) - (len(p) if p else 1), -1, -1):
        if (p and match_at(m, cs, k, p)) or (not p and any(cmp_char_eq(m, cs[k], q) for q in _pat_pred(m, args[1])[1])):
            L = len(p) if p else 1
            return some((S(cs[:k]), S(cs[k + L:])))
    return NONE()


@model(r'str::<impl str>::split_once::<char>$')
def _(m, callee, args):
    cs = rstr(m, args[0]).cs
    kind, p = _pat_pred(m, args[1])
    for k, c in enumerate(cs):
        if any(cmp_char_eq(m, c, q) for q in p):
            return some((S(cs[:k]), S(cs[k + 1:])))
    return NONE()


@model(r'^String::insert_str$')
def _(m, callee, args):
    from .models import cidx
    r = args[0]
    s = rstr(m, r)
    i = cidx(m, s.cs, args[1])
    m.write_place(r.frame, r.place, RStr(s.cs[:i] + rstr(m, args[2]).cs + s.cs[i:]))
    return ()


@model(r'^String::clear$')
def _(m, callee, args):
    r = args[0]
    m.write_place(r.frame, r.place, RStr([]))
    return ()


@model(r'^String::truncate$')
def _(m, callee, args):
    from .models import cidx
    r = args[0]
    s = rstr(m, r)
    m.write_place(r.frame, r.place, RStr(s.cs[:cidx(m, s.cs, args[1])]))
    return ()


@model(r'^String::pop$')
def _(m, callee, args):
    r = args[0]
    s = rstr(m, r)
    if not s.cs:
        return NONE()
    m.write_place(r.frame, r.place, RStr(s.cs[:-1]))
    return some(s.cs[-1])


@model(r'^<(String|str|&str) as (PartialOrd|Ord)(<.*>)?>::(lt|le|gt|ge|cmp)$')
def _(m, callee, args):
    a, b = rstr(m, args[0]).cs, rstr(m, args[1]).cs
    op = callee.rsplit('::', 1)[1]
    lt = str_lt(m, a, b)
    if op == 'lt':
        return lt
    eq = (not lt) and str_eq(m, RStr(a), RStr(b))
    if op == 'le':
        return lt or eq
    if op == 'gt':
        return not lt and not eq
    if op == 'ge':
        return not lt
    return Enum(-1 % (1 << 8) if lt else (0 if eq else 1), [], 'Ordering')


@model(r'^Vec::<.*>::with_capacity$')
def _(m, callee, args):
    return RVec([])


@model(r'^Vec::<.*>::insert$')
def _(m, callee, args):
    r = args[0]
    v = m.read_place(r.frame, r.place)
    i = args[1]
    if i > len(v.items):
        raise Panic('insertion index out of bounds')
    m.write_place(r.frame, r.place, RVec(v.items[:i] + [args[2]] + v.items[i:]))
    return ()


@model(r'^Vec::<.*>::contains$|slice::<impl \[.*\]>::contains$')
def _(m, callee, args):
    v = deref_all(m, args[0])
    items = v.items if isinstance(v, RVec) else v
    x = deref_all(m, args[1])
    for it in items:
        it = deref_all(m, it)
        if isinstance(x, RStr) and isinstance(it, RStr):
            if str_eq(m, x, it):
                return True
        elif it == x:
            return True
    return False


@model(r'slice::<impl \[.*\]>::sort$|slice::<impl \[.*\]>::sort_unstable$')
def _(m, callee, args):
    r = args[0]
    v = deref_all(m, r)
    items = list(v.items if isinstance(v, RVec) else v)
    out = []
    for it in items:
        k = 0
        while k < len(out) and not str_lt(m, deref_all(m, it).cs, deref_all(m, out[k]).cs):
            k += 1
        out.insert(k, it)
    if isinstance(v, RVec):
        v.items[:] = out
    else:
        v[:] = out
    return ()


@model(r'^Vec::<.*>::dedup$')
def _(m, callee, args):
    v = deref_all(m, args[0])
    out = []
    for it in v.items:
        if out and isinstance(deref_all(m, it), RStr) and str_eq(m, deref_all(m, it), deref_all(m, out[-1])):
            continue
        out.append(it)
    v.items[:] = out
    return ()


@model(r'^BTreeMap::<.*>::insert$')
def _(m, callee, args):
    t = deref_all(m, args[0])
    i, found = t.locate(m, args[1])
    if found:
        old = t.items[i][1]
        t.items[i] = (t.items[i][0], args[2])
        return some(old)
    t.items.insert(i, (args[1], args[2]))
    return NONE()


@model(r'^BTree(Map|Set)::<.*>::new$')
def _(m, callee, args):
    return BTree()


@model(r'^BTreeMap::<.*>::(iter|into_iter)$|^BTreeMap::<.*>::values$|^BTreeMap::<.*>::keys$')
def _(m, callee, args):
    t = deref_all(m, args[0])
    if callee.endswith('values'):
        return PyIter('list', items=[v for _, v in t.items], pos=0)
    if callee.endswith('keys'):
        return PyIter('list', items=[k for k, _ in t.items], pos=0)
    return PyIter('list', items=[(k, v) for k, v in t.items], pos=0)


@model(r'^BTreeSet::<.*>::contains::<')
def _(m, callee, args):
    return deref_all(m, args[0]).locate(m, args[1])[1]


@model(r' as Iterator>::collect::<BTreeSet<.*>>$')
def _(m, callee, args):
    t = BTree()
    for k in drain(m, args[0]):
        i, found = t.locate(m, k)
        if not found:
            t.items.insert(i, (k, None))
    return t


@model(r'^HashMap::<.*>::remove::<')
def _(m, callee, args):
    hm = deref_all(m, args[0])
    i = hm.find(m, args[1])
    if i < 0:
        return NONE()
    return some(hm.items.pop(i)[1])


@model(r'^drop::<|^std::mem::drop::<|^core::mem::drop::<')
def _(m, callee, args):
    return ()


@model(r'^Path::exists$|^Path::is_file$|^Path::is_dir$|^Path::try_exists$')
def _(m, callee, args):
    fs = _fs(m)
    n = fs.nodes.get(fs.resolve(m, args[0]))
    if callee.endswith('is_file'):
        return n is not None and n[0] == 'file'
    if callee.endswith('is_dir'):
        return n is not None and n[0] == 'dir'
    if callee.endswith('try_exists'):
        return OK(n is not None)
    return n is not None


@model(r'^(std::fs::)?write::<|^(std::fs::)?read_to_string::<|^(std::fs::)?remove_file::<')
def _(m, callee, args):
    fs = _fs(m)
    p = fs.resolve(m, args[0])
    if 'remove_file' in callee:
        if p not in fs.nodes or fs.nodes[p][0] != 'file':
            return ERR(io_err('ENOENT'))
        del fs.nodes[p]
        fs.log.append(('remove', p))
        return OK(())
    if 'read_to_string' in callee:
        n = fs.nodes.get(p)
        if n is None:
            return ERR(io_err('ENOENT'))
        if n[0] == 'dir':
            return ERR(io_err('EISDIR'))
        return OK(RStr(list(n[1])))
    e = fs.check_parent(p)
    if e:
        return ERR(io_err(e))
    if p in fs.nodes and fs.nodes[p][0] == 'dir':
        return ERR(io_err('EISDIR'))
    data = deref_all(m, args[1])
    fs.nodes[p] = ['file', list(data.cs if isinstance(data, RStr) else data)]
    fs.log.append(('create', p))
    fs.log.append(('write', p))
    return OK(())


# ------------------------------------------------------------------ PathBuf keys: std compares and hashes paths by components
def path_eq(m, a, b):
    ca, cb = models2.components(m, a), models2.components(m, b)
    if len(ca) != len(cb):
        return False
    for x, y in zip(ca, cb):
        if x.disc != y.disc:
            return False
        if x.disc == 4 and not str_eq(m, x.fields[0].v, y.fields[0].v):
            return False
    return True


def _hfind_path(m, hm, key):
    k = deref_all(m, key)
    for i, (ek, _) in enumerate(hm.items):
        if path_eq(m, k, deref_all(m, ek)):
            return i
    return -1


def _pathmap_get_mut(m, callee, args):
    assert m.env.get('lock_held', True), 'registry touched without the lock'
    hm = deref_all(m, args[0])
    i = _hfind_path(m, hm, args[1])
    return NONE() if i < 0 else some(ValRef(hm.items[i][1]))


def _pathmap_insert(m, callee, args):
    assert m.env.get('lock_held', True), 'registry touched without the lock'
    hm = deref_all(m, args[0])
    i = _hfind_path(m, hm, args[1])
    if i >= 0:
        old = hm.items[i][1]
        hm.items[i] = (hm.items[i][0], args[2])
        return some(old)
    hm.items.append((deref_all(m, args[1]), args[2]))
    return NONE()


_prepend(r'^HashMap::<PathBuf, .*>::(get_mut|get)::<', _pathmap_get_mut)
_prepend(r'^HashMap::<PathBuf, .*>::insert$', _pathmap_insert)
_prepend(r'^HashMap::<PathBuf, .*>::contains_key::<', lambda m, c, a: _hfind_path(m, deref_all(m, a[0]), a[1]) >= 0)


def _path_partial_eq(m, callee, args):
    same = path_eq(m, rstr(m, args[0]), rstr(m, args[1]))
    return same if callee.endswith('eq') else not same


_prepend(r'^<(PathBuf|Path|&Path|&PathBuf) as PartialEq(<.*>)?>::(eq|ne)$', _path_partial_eq)


def _split_file_at_dot(m, name):
    """std::path rsplit_file_at_dot: (stem chars, extension chars | None)"""
    if len(name) == 2 and all(models2.ceq(m, c, 46) for c in name):
        return name, None
    dots = [i for i, c in enumerate(name) if models2.ceq(m, c, 46)]
    if not dots or dots[-1] == 0:
        return name, None
    i = dots[-1]
    return name[:i], name[i + 1:]


def _set_ext(m, cs, ext):
    comps_ = models2.components(m, RStr(cs))
    if not comps_ or comps_[-1].disc != 4:
        return None
    name = comps_[-1].fields[0].v.cs
    stem, _ = _split_file_at_dot(m, name)
    # the file name is the tail of the path up to trailing separators
    end = len(cs)
    while end > 0 and models2.ceq(m, cs[end - 1], 47):
        end -= 1
    start = end - len(name)
    new_name = list(stem) + (([46] + list(ext)) if ext else [])
    return cs[:start] + new_name


@model(r'^Path::with_extension::<')
def _(m, callee, args):
    cs = rstr(m, args[0]).cs
    r = _set_ext(m, list(cs), rstr(m, args[1]).cs)
    return RStr(list(cs) if r is None else r)


@model(r'^PathBuf::set_extension::<')
def _(m, callee, args):
    r_ = args[0]
    cs = rstr(m, r_).cs
    r = _set_ext(m, list(cs), rstr(m, args[1]).cs)
    if r is None:
        return False
    m.write_place(r_.frame, r_.place, RStr(r))
    return True


@model(r'^Path::with_file_name::<|^PathBuf::set_file_name::<')
def _(m, callee, args):
    cs = rstr(m, args[0]).cs
    comps_ = models2.components(m, RStr(cs))
    if comps_ and comps_[-1].disc == 4:
        par = models2.MODELS and None
        buf_ = []
        for c in comps_[:-1]:
            buf_ = models2.path_push(m, buf_, models2.comp_str(c))
    else:
        buf_ = list(cs)
    out = models2.path_push(m, buf_, rstr(m, args[1]).cs)
    if callee.startswith('PathBuf::set_file_name'):
        r_ = args[0]
        m.write_place(r_.frame, r_.place, RStr(out))
        return ()
    return RStr(out)


# ------------------------------------------------------------------ integer ranges as iterators; boxed slices
def _range_items(m, v):
    v = deref_all(m, v)
    if isinstance(v, Struct) and len(v.fields) == 2 and all(isinstance(x, int) for x in v.fields):
        return list(range(v.fields[0], v.fields[1]))
    raise Unsupported(f'integer range with symbolic bounds: {v!r}')


def _range_map(m, callee, args):
    return PyIter('map', inner=PyIter('list', items=_range_items(m, args[0]), pos=0), closure=args[1])


_prepend(r'^<(std::ops::)?Range<usize> as Iterator>::map::<', _range_map)
_prepend(r'^<(std::ops::)?Range<usize> as IntoIterator>::into_iter$', lambda m, c, a: PyIter('list', items=_range_items(m, a[0]), pos=0))


@model(r' as Iterator>::collect::<Box<\[.*\]>>$')
def _(m, callee, args):
    # Box<[T]> as MIR sees it: Box { 0: Unique { pointer: NonNull<[T]> } }; the pointer is modelled as a reference to the slice
    return Struct([Struct([ValRef(RVec(drain(m, args[0])))], 'Unique')], 'Box')


@model(r'^(Hash|BTree)(Map|Set)::<.*>::(len|is_empty)$')
def _(m, callee, args):
    n = len(deref_all(m, args[0]).items)
    return (n == 0) if callee.endswith('is_empty') else n


@model(r'^(Hash|BTree)(Map|Set)::<.*>::clear$')
def _(m, callee, args):
    deref_all(m, args[0]).items[:] = []
    return ()


@model(r'^HashSet::<.*>::remove::<')
def _(m, callee, args):
    hs = deref_all(m, args[0])
    i = hs.find(m, args[1])
    if i < 0:
        return False
    hs.items.pop(i)
    return True


@model(r'^HashMap::<.*>::entry$')
def _(m, callee, args):
    return ('hentry', deref_all(m, args[0]), args[1], 'path' if callee.startswith('HashMap::<PathBuf') else 'plain')


def default_of(ty):
    """Default::default() of a type given by its MIR text"""
    ty = ty.strip()
    if re.fullmatch(r'(usize|u\d+|i\d+|isize)', ty):
        return 0
    if ty == 'bool':
        return False
    if ty in ('String', 'PathBuf', '&str'):
        return RStr([])
    if re.match(r'(std::collections::)?Hash(Set|Map)<', ty):
        return HMap()
    if re.match(r'(std::collections::)?BTree(Set|Map)<', ty):
        return BTree()
    if ty.startswith('Vec<'):
        return RVec([])
    if ty.startswith('Option<'):
        return NONE()
    raise Unsupported(f'Default::default() of {ty}')


def _entry_value_type(callee):
    from .mirparse import split_top
    q = re.search(r'Entry::<(.*)>::(or_default|or_insert|or_insert_with)', callee)
    parts = [x for x in split_top(q.group(1)) if not x.strip().startswith("'")] if q else []
    return parts[1] if len(parts) > 1 else ''


def _hentry_or(m, callee, args):
    from .interp import FnRef
    e = args[0]
    hm, key = e[1], e[2]
    find = (lambda: _hfind_path(m, hm, key)) if len(e) > 3 and e[3] == 'path' else (lambda: hm.find(m, key))
    i = find()
    if i < 0:
        if 'or_default' in callee:
            val = default_of(_entry_value_type(callee))
        elif 'or_insert_with' in callee:
            val = m.call_closure(args[1], [])
        else:
            val = args[1]
        hm.items.append((deref_all(m, key), val))
        i = len(hm.items) - 1

    def set_(val):
        j = find()
        hm.items[j] = (hm.items[j][0], val)
    return FnRef(lambda: hm.items[find()][1], set_)


_prepend(r'^std::collections::hash_map::Entry::<.*>::(or_default|or_insert|or_insert_with::<.*)$', _hentry_or)


# ------------------------------------------------------------------ vec![..] as lowered by the current compiler
@model(r'^Box::<\[.*; \d+\]>::new_uninit$')
def _(m, callee, args):
    # Box { 0: Unique { pointer: NonNull<MaybeUninit<[T; N]>> } };  MaybeUninit { uninit: (), value: ManuallyDrop { MaybeDangling { [T; N] } } }
    cell = Struct([(), Struct([Struct([None], 'MaybeDangling')], 'ManuallyDrop')], 'MaybeUninit')
    return Struct([Struct([ValRef(cell)], 'Unique')], 'Box')


@model(r'^std::boxed::box_assume_init_into_vec_unsafe::<')
def _(m, callee, args):
    cell = args[0].fields[0].fields[0].v
    arr = cell.fields[1].fields[0].fields[0]
    return RVec(list(arr))


@model(r'^slice::<impl \[.*\]>::into_vec::<|^<\[.*\]>::into_vec::<')
def _(m, callee, args):
    v = deref_all(m, args[0])
    return RVec(list(v.items if isinstance(v, RVec) else v))


def _panic_any(m, callee, args):
    a = args[0] if args else None
    try:
        msg = ''.join(chr(c) if isinstance(c, int) else '{' + getattr(c, 'label', '?') + '}' for c in models2.render_fmt(m, a)) if isinstance(a, tuple) else 'panic'
    except Exception:
        msg = 'panic'
    raise Panic(msg)


_prepend(r'(^|::)panic_fmt$|^core::panicking::|^std::rt::begin_panic|^std::panicking::|^core::panicking::panic_display', _panic_any)


# ------------------------------------------------------------------ integer helpers and str::repeat
def _int_args(args):
    if any(is_sym(a) for a in args):
        raise Unsupported('symbolic integer in an integer helper (saturating/checked/min/max)')
    return args


@model(r'^core::num::<impl (u|i)(8|16|32|64|128|size)>::(saturating_sub|saturating_add|wrapping_sub|wrapping_add|checked_sub|checked_add|min|max|pow|abs_diff)$')
def _(m, callee, args):
    mm = re.search(r'<impl (u|i)(8|16|32|64|128|size)>::(\w+)$', callee)
    signed, bits, op = mm.group(1) == 'i', (64 if mm.group(2) == 'size' else int(mm.group(2))), mm.group(3)
    a, b = _int_args(args[:2])
    lo, hi = (-(1 << (bits - 1)), (1 << (bits - 1)) - 1) if signed else (0, (1 << bits) - 1)
    if op in ('saturating_sub', 'saturating_add'):
        r = a - b if op.endswith('sub') else a + b
        return max(lo, min(hi, r))
    if op in ('wrapping_sub', 'wrapping_add'):
        r = a - b if op.endswith('sub') else a + b
        return r % (1 << bits) if not signed else ((r - lo) % (1 << bits)) + lo
    if op in ('checked_sub', 'checked_add'):
        r = a - b if op.endswith('sub') else a + b
        return some(r) if lo <= r <= hi else NONE()
    if op == 'min':
        return min(a, b)
    if op == 'max':
        return max(a, b)
    if op == 'abs_diff':
        return abs(a - b)
    r = a ** b
    if not lo <= r <= hi:
        raise Panic('attempt to multiply with overflow')
    return r


@model(r'^<(usize|u\d+|i\d+|isize) as Ord>::(min|max)$|^std::cmp::(min|max)::<(usize|u\d+|i\d+|isize)>$|^core::cmp::(min|max)::<')
def _(m, callee, args):
    a, b = _int_args(args[:2])
    return min(a, b) if 'min' in callee.rsplit('::', 2)[-2] + callee.rsplit('::', 1)[-1] else max(a, b)


@model(r'str::<impl str>::repeat$|^String::repeat$|slice::<impl \[.*\]>::repeat$')
def _(m, callee, args):
    s = rstr(m, args[0])
    n = args[1]
    if is_sym(n):
        raise Unsupported('repeat with a symbolic count')
    return RStr(list(s.cs) * n)


# ------------------------------------------------------------------ OpenOptions with flags; bool -> integer; iter::repeat / take
class OpenOpts:
    def __init__(self):
        self.read = self.write = self.create = self.truncate = self.append = self.create_new = False


def _oo_new(m, callee, args):
    return OpenOpts()


_prepend(r'^OpenOptions::new$|^File::options$', _oo_new)


def _oo_flag(m, callee, args):
    r = args[0]
    oo = deref_all(m, r)
    if not isinstance(oo, OpenOpts):
        oo = OpenOpts()
    flag = callee.rsplit('::', 1)[1]
    val = args[1]
    if is_sym(val):
        raise Unsupported('symbolic OpenOptions flag')
    setattr(oo, flag, bool(val))
    if isinstance(r, Ref):
        m.write_place(r.frame, r.place, oo)
    return r if isinstance(r, (Ref, ValRef)) else ValRef(oo)


_prepend(r'^OpenOptions::(read|write|create|truncate|append|create_new)$', _oo_flag)


def _oo_open(m, callee, args):
    fs = m.env.get('fs')
    oo = deref_all(m, args[0])
    if not isinstance(fs, FSModel):
        return None
    if not isinstance(oo, OpenOpts):
        oo = OpenOpts()
        oo.read = oo.write = True
    assert m.env.get('lock_held', True), 'file touched without the lock'
    p = fs.resolve(m, args[1])
    e = fs.check_parent(p)
    if e:
        return ERR(io_err(e))
    n = fs.nodes.get(p)
    if n is not None and n[0] == 'dir':
        return ERR(io_err('EISDIR'))
    if n is None:
        if not (oo.create or oo.create_new) or not (oo.write or oo.append):
            return ERR(io_err('ENOENT'))
        fs.nodes[p] = ['file', []]
        fs.log.append(('create', p))
    else:
        if oo.create_new:
            return ERR(io_err('EEXIST'))
        if oo.truncate and oo.write:
            fs.nodes[p] = ['file', []]
            fs.log.append(('create', p))
        else:
            fs.log.append(('open', p))
    f = File2(p)
    if oo.append:
        f.cur = len(fs.nodes[p][1])
    return OK(f)


def _oo_open_both(m, callee, args):
    r = _oo_open(m, callee, args)
    if r is None:
        return _f2_open(m, callee, args) or ERR(io_err('ENOENT'))
    return r


_prepend(r'^OpenOptions::open::<', _oo_open_both)


def _file_set_len(m, callee, args):
    f = deref_all(m, args[0])
    fs = _fs(m)
    n = args[1]
    cur = fs.nodes[f.path][1]
    fs.nodes[f.path][1] = cur[:n] + [0] * max(0, n - len(cur))
    fs.log.append(('write', f.path))
    return OK(())


_prepend(r'^File::set_len$', _file_set_len)


@model(r'^<(usize|u8|u16|u32|u64|i32|i64|isize) as From<bool>>::from$')
def _(m, callee, args):
    v = args[0]
    if is_sym(v):
        return z3.If(v, z3.BitVecVal(1, 64), z3.BitVecVal(0, 64))
    return 1 if v else 0


@model(r'^(std::iter::)?repeat::<|^(std::iter::)?repeat_n::<')
def _(m, callee, args):
    if 'repeat_n' in callee:
        return PyIter('list', items=[args[0]] * args[1], pos=0)
    return PyIter('repeat', value=args[0])


@model(r' as Iterator>::take$')
def _(m, callee, args):
    it = deref_all(m, args[0]) if not isinstance(args[0], PyIter) else args[0]
    n = args[1]
    if is_sym(n):
        raise Unsupported('take() with a symbolic count')
    if isinstance(it, PyIter) and it.kind == 'repeat':
        return PyIter('list', items=[it.value] * n, pos=0)
    out = []
    for _ in range(n):
        v = it_next(m, it)
        if v is None:
            break
        out.append(v)
    return PyIter('list', items=out, pos=0)


@model(r'^<Vec<.*> as Extend<.*>>::extend::<|^Vec::<.*>::extend::<|^Vec::<.*>::extend_from_slice$')
def _(m, callee, args):
    r = args[0]
    v = deref_all(m, r)
    src = args[1]
    d = deref_all(m, src)
    if isinstance(d, RVec):
        new = list(d.items)
    elif isinstance(d, list):
        new = list(d)
    else:
        new = drain(m, into_iter(m, src) if not isinstance(d, (PyIter, Iter)) else src)
    if isinstance(r, Ref):
        m.write_place(r.frame, r.place, RVec(v.items + new))
    else:
        v.items.extend(new)
    return ()


@model(r'^(std|core)::mem::(replace|take|swap)::<')
def _(m, callee, args):
    op = re.search(r'mem::(\w+)::<', callee).group(1)
    r = args[0]
    old = m.read_place(r.frame, r.place) if isinstance(r, Ref) else deref_all(m, r)
    if op == 'replace':
        m.write_place(r.frame, r.place, args[1])
        return old
    if op == 'take':
        ty = callee
        dflt = False if '<bool>' in ty else (RStr([]) if 'String' in ty else (NONE() if 'Option<' in ty else (0 if re.search(r'<(u|i)(\d+|size)>', ty) else None)))
        if dflt is None:
            raise Unsupported('mem::take of ' + ty)
        m.write_place(r.frame, r.place, dflt)
        return old
    r2 = args[1]
    other = m.read_place(r2.frame, r2.place)
    m.write_place(r.frame, r.place, other)
    m.write_place(r2.frame, r2.place, old)
    return ()


# ------------------------------------------------------------------ second breadth batch: what a small patch is likely to reach for
@model(r'char::methods::<impl char>::is_ascii_(uppercase|lowercase|alphabetic|digit|alphanumeric|punctuation|whitespace)$|char::methods::<impl char>::is_ascii$')
def _(m, callee, args):
    from .models import charval
    c = charval(m, args[0])
    kind = callee.rsplit('is_ascii', 1)[1].lstrip('_')
    def rng(a, b):
        return z3.And(z3.UGE(c, a), z3.ULE(c, b)) if is_sym(c) else a <= c <= b
    OR = (lambda *xs: z3.Or(*xs)) if is_sym(c) else (lambda *xs: any(xs))
    if kind == '':
        return z3.ULT(c, 128) if is_sym(c) else c < 128
    if kind == 'uppercase':
        return rng(65, 90)
    if kind == 'lowercase':
        return rng(97, 122)
    if kind == 'alphabetic':
        return OR(rng(65, 90), rng(97, 122))
    if kind == 'digit':
        return rng(48, 57)
    if kind == 'alphanumeric':
        return OR(rng(65, 90), rng(97, 122), rng(48, 57))
    if kind == 'whitespace':
        return OR(*[(c == w) for w in (32, 9, 10, 12, 13)])
    return OR(rng(33, 47), rng(58, 64), rng(91, 96), rng(123, 126))


@model(r'str::<impl str>::eq_ignore_ascii_case$')
def _(m, callee, args):
    from .unicode import to_ascii_lower
    a, b = rstr(m, args[0]).cs, rstr(m, args[1]).cs
    return str_eq(m, RStr([to_ascii_lower(c) for c in a]), RStr([to_ascii_lower(c) for c in b]))


@model(r'str::<impl str>::is_char_boundary$')
def _(m, callee, args):
    cs = rstr(m, args[0]).cs
    off = 0
    for c in cs:
        if off == args[1]:
            return True
        off += U8(m, c)
    return off == args[1]


def elem_ref(m, vref, i):
    """`&mut v[i]` for a vector reached through the reference `vref`"""
    from .interp import FnRef

    def get():
        v = deref_all(m, vref)
        return (v.items if isinstance(v, RVec) else v)[i]

    def set_(val):
        v = deref_all(m, vref)
        items = list(v.items if isinstance(v, RVec) else v)
        items[i] = val
        r = vref
        while isinstance(r, (Ref, ValRef)) and isinstance(m.read_place(r.frame, r.place), (Ref, ValRef)):
            r = m.read_place(r.frame, r.place)
        m.write_place(r.frame, r.place, RVec(items))
    return FnRef(get, set_)


def opt_ref(m, r):
    """`&mut x` for the payload of the `Some(x)` stored behind the reference r"""
    from .interp import FnRef
    return FnRef(lambda: m.read_place(r.frame, r.place).fields[0], lambda val: m.write_place(r.frame, r.place, some(val)))


def U8(m, c):
    from .unicode import utf8_len
    return utf8_len(m, c)


@model(r'str::<impl str>::split_at$')
def _(m, callee, args):
    from .models import cidx
    cs = rstr(m, args[0]).cs
    i = cidx(m, cs, args[1], 'split index')
    return (S(cs[:i]), S(cs[i:]))


@model(r'str::<impl str>::(splitn|rsplitn)::<')
def _(m, callee, args):
    cs = rstr(m, args[0]).cs
    n = args[1]
    kind, p = _pat_pred(m, args[2])
    if kind != 'str':
        p = None
    parts = split_list(m, cs, p) if p is not None else [x.v.cs for x in []]
    if p is None:
        parts, cur = [], []
        for c in cs:
            if any(cmp_char_eq(m, c, q) for q in _pat_pred(m, args[2])[1]):
                parts.append(cur)
                cur = []
            else:
                cur.append(c)
        parts.append(cur)
    sep = p if p is not None else None
    if 'rsplitn' in callee:
        raise Unsupported('rsplitn')
    if len(parts) > n:
        head, tail = parts[:n - 1], parts[n - 1:]
        joined = []
        for i, t in enumerate(tail):
            if i:
                joined += (sep if sep is not None else [cs[sum(len(x) + 1 for x in parts[:n - 1 + i]) - 1]])
            joined += t
        parts = head + [joined]
    return PyIter('list', items=[S(x) for x in parts], pos=0)


@model(r'^Option::<.*>::(filter|is_some_and|is_none_or)::<')
def _(m, callee, args):
    op = re.search(r'::(filter|is_some_and|is_none_or)::<', callee).group(1)
    if disc_is(m, args[0], 1):
        v = args[0].fields[0]
        r = truthy(m, m.call_closure(args[1], [ValRef(v)] if op == 'filter' else [v]))
        return (args[0] if r else NONE()) if op == 'filter' else r
    return NONE() if op == 'filter' else (op == 'is_none_or')


@model(r'^Option::<.*>::take$')
def _(m, callee, args):
    r = args[0]
    old = m.read_place(r.frame, r.place)
    m.write_place(r.frame, r.place, NONE())
    return old


@model(r'^Option::<.*>::(get_or_insert_with|get_or_insert)::<|^Option::<.*>::get_or_insert$|^Option::<.*>::insert$')
def _(m, callee, args):
    r = args[0]
    cur = m.read_place(r.frame, r.place)
    if 'get_or_insert' in callee and disc_is(m, cur, 1):
        return opt_ref(m, r)
    v = m.call_closure(args[1], []) if 'insert_with' in callee else args[1]
    m.write_place(r.frame, r.place, some(v))
    return opt_ref(m, r)


@model(r'^Option::<.*>::ok_or$|^Option::<.*>::ok_or::<')
def _(m, callee, args):
    return OK(args[0].fields[0]) if disc_is(m, args[0], 1) else ERR(args[1])


@model(r'^Option::<.*>::zip::<')
def _(m, callee, args):
    if disc_is(m, args[0], 1) and disc_is(m, args[1], 1):
        return some((args[0].fields[0], args[1].fields[0]))
    return NONE()


@model(r'^Option::<.*>::(cloned|copied)$')
def _(m, callee, args):
    if disc_is(m, args[0], 1):
        return some(deref_all(m, args[0].fields[0]))
    return NONE()


@model(r'^Result::<.*>::(is_ok|is_err)$')
def _(m, callee, args):
    ok = disc_is(m, args[0], 0)
    return ok if callee.endswith('is_ok') else not ok


@model(r'^Result::<.*>::and_then::<')
def _(m, callee, args):
    if disc_is(m, args[0], 0):
        return m.call_closure(args[1], [args[0].fields[0]])
    return args[0]


@model(r'^Result::<.*>::or_else::<')
def _(m, callee, args):
    if disc_is(m, args[0], 1):
        return m.call_closure(args[1], [args[0].fields[0]])
    return args[0]


@model(r'^Result::<.*>::unwrap_or_else::<')
def _(m, callee, args):
    if disc_is(m, args[0], 0):
        return args[0].fields[0]
    return m.call_closure(args[1], [args[0].fields[0]])


@model(r'^Result::<.*>::unwrap_or$|^Result::<.*>::unwrap_or::<')
def _(m, callee, args):
    return args[0].fields[0] if disc_is(m, args[0], 0) else args[1]


@model(r'^Result::<.*>::unwrap_err$|^Result::<.*>::expect_err$')
def _(m, callee, args):
    if disc_is(m, args[0], 0):
        raise Panic('called `Result::unwrap_err()` on an `Ok` value')
    return args[0].fields[0]


@model(r' as Iterator>::zip::<')
def _(m, callee, args):
    b = args[1]
    if not isinstance(deref_all(m, b), (PyIter, Iter)):
        b = into_iter(m, b)
    out = []
    while True:
        x = it_next(m, args[0])
        if x is None:
            break
        y = it_next(m, b)
        if y is None:
            break
        out.append((x, y))
    return PyIter('list', items=out, pos=0)


@model(r' as Iterator>::(take_while|skip_while)::<')
def _(m, callee, args):
    items = drain(m, args[0])
    k = 0
    while k < len(items) and truthy(m, m.call_closure(args[1], [ValRef(items[k])])):
        k += 1
    return PyIter('list', items=items[:k] if 'take_while' in callee else items[k:], pos=0)


@model(r' as Iterator>::position::<')
def _(m, callee, args):
    i = 0
    while True:
        x = it_next(m, args[0])
        if x is None:
            return NONE()
        if truthy(m, m.call_closure(args[1], [x])):
            return some(i)
        i += 1


@model(r' as Iterator>::find::<')
def _(m, callee, args):
    while True:
        x = it_next(m, args[0])
        if x is None:
            return NONE()
        if truthy(m, m.call_closure(args[1], [ValRef(x)])):
            return some(x)


@model(r' as Iterator>::find_map::<')
def _(m, callee, args):
    while True:
        x = it_next(m, args[0])
        if x is None:
            return NONE()
        r = m.call_closure(args[1], [x])
        if disc_is(m, r, 1):
            return r


@model(r' as Iterator>::(cloned|copied)(::<.*>)?$')
def _(m, callee, args):
    return PyIter('list', items=[deref_all(m, x) if isinstance(x, (Ref, ValRef)) else x for x in drain(m, args[0])], pos=0)


@model(r' as Iterator>::flatten(::<.*>)?$')
def _(m, callee, args):
    out = []
    for x in drain(m, args[0]):
        out.extend(drain(m, into_iter(m, x)))
    return PyIter('list', items=out, pos=0)


@model(r' as Iterator>::for_each::<')
def _(m, callee, args):
    for x in drain(m, args[0]):
        m.call_closure(args[1], [x])
    return ()


@model(r' as Iterator>::nth$')
def _(m, callee, args):
    x = None
    for _ in range(args[1] + 1):
        x = it_next(m, args[0])
        if x is None:
            return NONE()
    return some(x)


@model(r' as Iterator>::step_by$')
def _(m, callee, args):
    items = drain(m, args[0])
    return PyIter('list', items=items[::args[1]], pos=0)


@model(r' as Iterator>::sum::<')
def _(m, callee, args):
    tot = 0
    for x in drain(m, args[0]):
        x = deref_all(m, x) if isinstance(x, (Ref, ValRef)) else x
        tot = tot + x
    return tot


@model(r' as Iterator>::(max|min)$')
def _(m, callee, args):
    items = drain(m, args[0])
    if not items:
        return NONE()
    best = items[0]
    for x in items[1:]:
        a, b = deref_all(m, x), deref_all(m, best)
        if isinstance(a, RStr):
            lt = str_lt(m, a.cs, b.cs)
        else:
            if is_sym(a) or is_sym(b):
                raise Unsupported('max/min over symbolic integers')
            lt = a < b
        if (callee.endswith('min') and lt) or (callee.endswith('max') and not lt):
            best = x
    return some(best)


@model(r' as Iterator>::partition::<')
def _(m, callee, args):
    yes, no = [], []
    for x in drain(m, args[0]):
        (yes if truthy(m, m.call_closure(args[1], [ValRef(x)])) else no).append(x)
    return (RVec(yes), RVec(no))


@model(r' as Iterator>::unzip::<')
def _(m, callee, args):
    a, b = [], []
    for x, y in drain(m, args[0]):
        a.append(x)
        b.append(y)
    return (RVec(a), RVec(b))


@model(r' as Iterator>::(size_hint|len)$|^<.* as ExactSizeIterator>::len$')
def _(m, callee, args):
    it = deref_all(m, args[0]) if not isinstance(args[0], PyIter) else args[0]
    if isinstance(it, PyIter) and it.kind in ('list', 'slice', 'components'):
        n = len(it.items) - it.pos
        return (n, some(n)) if callee.endswith('size_hint') else n
    raise Unsupported('length of a lazy iterator')


@model(r' as DoubleEndedIterator>::next_back$')
def _(m, callee, args):
    it = deref_all(m, args[0]) if not isinstance(args[0], PyIter) else args[0]
    if isinstance(it, PyIter) and it.kind in ('list', 'slice', 'components') and it.pos < len(it.items):
        v = it.items[-1]
        it.items = it.items[:-1]          # never mutate the list in place: a slice iterator shares it with the vector
        return some(ValRef(v) if it.kind == 'slice' else v)
    if isinstance(it, PyIter) and it.kind in ('list', 'slice', 'components'):
        return NONE()
    raise Unsupported('next_back of a lazy iterator')


@model(r'^Vec::<.*>::(remove|swap_remove)$')
def _(m, callee, args):
    r = args[0]
    v = m.read_place(r.frame, r.place)
    i = args[1]
    if i >= len(v.items):
        raise Panic('removal index out of bounds')
    x = v.items[i]
    m.write_place(r.frame, r.place, RVec(v.items[:i] + v.items[i + 1:]))
    return x


@model(r'^Vec::<.*>::truncate$')
def _(m, callee, args):
    r = args[0]
    v = m.read_place(r.frame, r.place)
    m.write_place(r.frame, r.place, RVec(v.items[:args[1]]))
    return ()


@model(r'^Vec::<.*>::clear$')
def _(m, callee, args):
    r = args[0]
    m.write_place(r.frame, r.place, RVec([]))
    return ()


@model(r'^Vec::<.*>::retain::<')
def _(m, callee, args):
    r = args[0]
    v = m.read_place(r.frame, r.place)
    m.write_place(r.frame, r.place, RVec([x for x in v.items if truthy(m, m.call_closure(args[1], [ValRef(x)]))]))
    return ()


@model(r'slice::<impl \[.*\]>::(sort_by|sort_unstable_by)::<')
def _(m, callee, args):
    v = deref_all(m, args[0])
    items = list(v.items if isinstance(v, RVec) else v)
    out = []
    for it in items:
        k = 0
        while k < len(out):
            o = m.call_closure(args[1], [ValRef(it), ValRef(out[k])])
            d = o.disc if isinstance(o, Enum) else o
            if d in (255, -1):      # Ordering::Less
                break
            k += 1
        out.insert(k, it)
    if isinstance(v, RVec):
        v.items[:] = out
    else:
        v[:] = out
    return ()


@model(r'slice::<impl \[.*\]>::(last_mut|first_mut)$|^Vec::<.*>::(last_mut|first_mut)$')
def _(m, callee, args):
    v = deref_all(m, args[0])
    items = v.items if isinstance(v, RVec) else v
    if not items:
        return NONE()
    i = len(items) - 1 if 'last' in callee else 0
    return some(elem_ref(m, args[0], i))


@model(r'slice::<impl \[.*\]>::(windows|chunks)$')
def _(m, callee, args):
    v = deref_all(m, args[0])
    items = list(v.items if isinstance(v, RVec) else v)
    n = args[1]
    if 'windows' in callee:
        return PyIter('list', items=[RVec(items[i:i + n]) for i in range(0, len(items) - n + 1)], pos=0)
    return PyIter('list', items=[RVec(items[i:i + n]) for i in range(0, len(items), n)], pos=0)


@model(r'^Path::ancestors$')
def _(m, callee, args):
    s = rstr(m, args[0])
    comps_ = models2.components(m, s)
    out = [S(list(s.cs))]
    while comps_:
        if comps_[-1].disc == 1:
            break
        comps_ = comps_[:-1]
        buf_ = []
        for c in comps_:
            buf_ = models2.path_push(m, buf_, models2.comp_str(c))
        out.append(S(buf_))
    return PyIter('list', items=out, pos=0)


@model(r'^Path::strip_prefix::<')
def _(m, callee, args):
    a = models2.components(m, rstr(m, args[0]))
    b = models2.components(m, rstr(m, args[1]))
    if len(b) > len(a):
        return ERR(('strip_prefix_error',))
    for x, y in zip(a, b):
        if x.disc != y.disc or (x.disc == 4 and not str_eq(m, x.fields[0].v, y.fields[0].v)):
            return ERR(('strip_prefix_error',))
    buf_ = []
    for c in a[len(b):]:
        buf_ = models2.path_push(m, buf_, models2.comp_str(c))
    return OK(S(buf_))


@model(r'^Path::ends_with::<')
def _(m, callee, args):
    a = models2.components(m, rstr(m, args[0]))
    b = models2.components(m, rstr(m, args[1]))
    if len(b) > len(a):
        return False
    for x, y in zip(a[len(a) - len(b):], b):
        if x.disc != y.disc or (x.disc == 4 and not str_eq(m, x.fields[0].v, y.fields[0].v)):
            return False
    return True


@model(r'^Path::iter$')
def _(m, callee, args):
    return PyIter('list', items=[S(models2.comp_str(c)) for c in models2.components(m, rstr(m, args[0]))], pos=0)


@model(r'^PathBuf::pop$')
def _(m, callee, args):
    r = args[0]
    s = rstr(m, r)
    comps_ = models2.components(m, s)
    if not comps_ or comps_[-1].disc == 1:
        return False
    buf_ = []
    for c in comps_[:-1]:
        buf_ = models2.path_push(m, buf_, models2.comp_str(c))
    m.write_place(r.frame, r.place, RStr(buf_))
    return True


@model(r'^Path::display$|^Path::to_string_lossy$')
def _(m, callee, args):
    if callee.endswith('display'):
        return ('display', rstr(m, args[0]))
    return Enum(0, [ValRef(rstr(m, args[0]))], 'Borrowed')


@model(r"core::fmt::rt::Argument::<'_>::new_display::<(std::path::)?Display<'_>>$")
def _(m, callee, args):
    v = deref_all(m, args[0])
    return ('fmtarg', v[1] if isinstance(v, tuple) else v)


@model(r"core::fmt::rt::Argument::<'_>::new_debug::<")
def _(m, callee, args):
    v = deref_all(m, args[0])
    if isinstance(v, Enum) and v.name in ('Borrowed', 'Owned'):
        v = deref_all(m, v.fields[0])
    if isinstance(v, RStr):
        # Debug of a str: quoted with escapes for `"` and `\\` (other escapes are outside the alphabets used)
        out = [34]
        for c in v.cs:
            if isinstance(c, int) and c in (34, 92):
                out += [92, c]
            elif isinstance(c, int) and c == 10:
                out += [92, ord('n')]
            elif is_sym(c):
                raise Unsupported('Debug formatting of a symbolic char')
            else:
                out.append(c)
        out.append(34)
        return ('fmtarg', RStr(out))
    raise Unsupported(f'Debug formatting of {v!r}')


# ------------------------------------------------------------------ third breadth batch (driven by props/selftest.py)
def _dec(n):
    return [ord(c) for c in str(n)]


@model(r'^<(usize|u8|u16|u32|u64|u128|isize|i8|i16|i32|i64|i128) as ToString>::to_string$')
def _(m, callee, args):
    v = deref_all(m, args[0])
    if is_sym(v):
        raise Unsupported('to_string of a symbolic integer')
    q = re.match(r'^<i(\d+|size) as', callee)
    if q:
        w = 64 if q.group(1) == 'size' else int(q.group(1))
        if v >= 1 << (w - 1):
            v -= 1 << w          # integers are kept modulo 2^w
    return RStr(_dec(v))


@model(r'^<&(&)?(str|String) as ToString>::to_string$|^<Cow<\'_, str> as ToString>::to_string$|^Cow::<\'_, str>::into_owned$|^<Cow<\'_, str> as Into<String>>::into$')
def _(m, callee, args):
    v = deref_all(m, args[0])
    if isinstance(v, Enum) and v.name in ('Borrowed', 'Owned'):
        v = deref_all(m, v.fields[0])
    return RStr(list(v.cs))


@model(r'^(std::ffi::)?OsStr::to_string_lossy$')
def _(m, callee, args):
    return Enum(0, [ValRef(rstr(m, args[0]))], 'Borrowed')


@model(r'^<Vec<.*> as (std::ops::)?DerefMut>::deref_mut$|^<String as (std::ops::)?DerefMut>::deref_mut$|^Vec::<.*>::as_mut_slice$|^Vec::<.*>::as_slice$|^String::as_mut_str$')
def _(m, callee, args):
    return args[0]


def _bt(m, a):
    return deref_all(m, a)


@model(r'^BTreeMap::<.*>::contains_key::<')
def _(m, callee, args):
    return _bt(m, args[0]).locate(m, args[1])[1]


@model(r'^BTreeMap::<.*>::(get|get_mut)::<')
def _(m, callee, args):
    from .interp import FnRef
    t = _bt(m, args[0])
    i, found = t.locate(m, args[1])
    if not found:
        return NONE()
    key = t.items[i][0]

    def set_(val, t=t, key=key):
        j, _ = t.locate(m, key)
        t.items[j] = (t.items[j][0], val)
    return some(FnRef(lambda t=t, key=key: t.items[t.locate(m, key)[0]][1], set_))


@model(r'^BTree(Map|Set)::<.*>::remove::<')
def _(m, callee, args):
    t = _bt(m, args[0])
    i, found = t.locate(m, args[1])
    if not found:
        return NONE() if callee.startswith('BTreeMap') else False
    k, v = t.items.pop(i)
    return some(v) if callee.startswith('BTreeMap') else True


def _btree_entry_or(m, callee, args):
    from .interp import FnRef
    _, tree, key = args[0][:3]
    i, found = tree.locate(m, key)
    if not found:
        if 'or_default' in callee:
            val = default_of(_entry_value_type(callee))
        elif 'or_insert_with' in callee:
            val = m.call_closure(args[1], [])
        else:
            val = args[1]
        tree.items.insert(i, (key, val))

    def set_(val):
        j, _ = tree.locate(m, key)
        tree.items[j] = (tree.items[j][0], val)
    return FnRef(lambda: tree.items[tree.locate(m, key)[0]][1], set_)


_prepend(r'^std::collections::btree_map::Entry::<.*>::(or_default|or_insert|or_insert_with::<.*)$', _btree_entry_or)


@model(r'^BTreeSet::<.*>::(into_iter)$|^<&?BTreeSet<.*> as IntoIterator>::into_iter$|^<&?BTreeMap<.*> as IntoIterator>::into_iter$')
def _(m, callee, args):
    t = _bt(m, args[0])
    if 'BTreeSet' in callee:
        return PyIter('list', items=[k for k, _ in t.items], pos=0)
    return PyIter('list', items=[(k, v) for k, v in t.items], pos=0)


@model(r'^BTree(Map|Set)::<.*>::(first_key_value|last_key_value|first|last)$')
def _(m, callee, args):
    t = _bt(m, args[0])
    if not t.items:
        return NONE()
    k, v = t.items[0 if 'first' in callee else -1]
    return some((k, ValRef(v))) if callee.startswith('BTreeMap') else some(k)


@model(r'^<HashMap<.*> as (std::ops::)?Index<.*>>::index$|^<BTreeMap<.*> as (std::ops::)?Index<.*>>::index$')
def _(m, callee, args):
    h = deref_all(m, args[0])
    if isinstance(h, BTree):
        i, found = h.locate(m, args[1])
        if not found:
            raise Panic('key not found in map')
        return ValRef(h.items[i][1])
    i = h.find(m, args[1])
    if i < 0:
        raise Panic('key not found in map')
    return ValRef(h.items[i][1])


@model(r'slice::<impl \[.*\]>::(concat)::<')
def _(m, callee, args):
    v = deref_all(m, args[0])
    out = []
    for x in (v.items if isinstance(v, RVec) else v):
        out += rstr(m, x).cs
    return RStr(out)


@model(r'slice::<impl \[.*\]>::reverse$')
def _(m, callee, args):
    v = deref_all(m, args[0])
    if isinstance(v, RVec):
        v.items.reverse()
    else:
        v.reverse()
    return ()


@model(r'^String::insert$')
def _(m, callee, args):
    from .models import cidx
    r = args[0]
    cs = rstr(m, r).cs
    i = cidx(m, cs, args[1], 'insertion index')
    m.write_place(r.frame, r.place, RStr(cs[:i] + [args[2]] + cs[i:]))
    return ()


@model(r'^String::remove$')
def _(m, callee, args):
    from .models import cidx
    r = args[0]
    cs = rstr(m, r).cs
    i = cidx(m, cs, args[1], 'removal index')
    if i >= len(cs):
        raise Panic('cannot remove a char from the end of a string')
    m.write_place(r.frame, r.place, RStr(cs[:i] + cs[i + 1:]))
    return cs[i]


@model(r'str::<impl str>::bytes$')
def _(m, callee, args):
    cs = rstr(m, args[0]).cs
    out = []
    for c in cs:
        if is_sym(c):
            m.ctx.assume(z3.ULT(c, 128))        # symbolic chars range over ASCII alphabets in every harness that reaches bytes()
            out.append(c)
        elif isinstance(c, int):
            out.extend(chr(c).encode('utf-8'))
        else:
            raise Unsupported('bytes() of a string with an uninterpreted part')
    return PyIter('list', items=out, pos=0)


@model(r'str::<impl str>::parse::<(usize|u8|u16|u32|u64|i32|i64|isize)>$|^<(usize|u8|u16|u32|u64|i32|i64|isize) as FromStr>::from_str$')
def _(m, callee, args):
    cs = rstr(m, args[0]).cs
    if any(is_sym(c) for c in cs):
        raise Unsupported('parse::<int> of a symbolic string')
    t = ''.join(map(chr, cs))
    if re.fullmatch(r'\+?\d+', t) or (re.fullmatch(r'-\d+', t) and re.search(r'<i', callee)):
        return OK(int(t))
    return ERR(('parse_int_error',))


@model(r'char::methods::<impl char>::(from_u32|from_digit|to_digit|is_control|is_ascii_control|is_digit)$|^char::convert::from_u32$|^std::char::from_u32$|^core::char::from_u32$')
def _(m, callee, args):
    from .models import charval
    op = callee.rsplit('::', 1)[1]
    a = charval(m, args[0]) if op not in ('from_u32', 'from_digit') else args[0]
    if is_sym(a) and op in ('is_control', 'is_ascii_control'):
        ascii_ctl = z3.Or(z3.ULT(a, 32), a == 127)
        return ascii_ctl if op == 'is_ascii_control' else z3.Or(ascii_ctl, z3.And(z3.UGE(a, 0x80), z3.ULE(a, 0x9F)))
    if is_sym(a):
        raise Unsupported(f'char::{op} of a symbolic value')
    if op == 'from_u32':
        return some(a) if (a < 0xD800 or 0xE000 <= a < 0x110000) else NONE()
    if op == 'from_digit':
        return some(ord('0123456789abcdefghijklmnopqrstuvwxyz'[a])) if a < args[1] else NONE()
    if op in ('to_digit', 'is_digit'):
        d = '0123456789abcdefghijklmnopqrstuvwxyz'.find(chr(a).lower()) if a < 128 else -1
        ok = 0 <= d < args[1]
        return (some(d) if ok else NONE()) if op == 'to_digit' else ok
    return a < 32 or a == 127 or (op == 'is_control' and 0x80 <= a < 0xA0)


@model(r'^<bool as ToString>::to_string$')
def _(m, callee, args):
    v = deref_all(m, args[0])
    if is_sym(v):
        raise Unsupported('to_string of a symbolic bool')
    return RStr([ord(c) for c in ('true' if v else 'false')])


@model(r'^<&(&)?(str|String) as PartialEq(<.*>)?>::(eq|ne)$')
def _(m, callee, args):
    r = str_eq(m, rstr(m, args[0]), rstr(m, args[1]))
    return r if callee.endswith('::eq') else not r


@model(r'str::<impl str>::rsplit::<(char|&str)>$')
def _(m, callee, args):
    cs = rstr(m, args[0]).cs
    kind, p = _pat_pred(m, args[1])
    if kind == 'str':
        parts = split_list(m, cs, p)
    else:
        parts, cur = [], []
        for c in cs:
            if any(cmp_char_eq(m, c, q) for q in p):
                parts.append(cur)
                cur = []
            else:
                cur.append(c)
        parts.append(cur)
    return PyIter('list', items=[S(x) for x in reversed(parts)], pos=0)


@model(r"core::fmt::rt::Argument::<'_>::new_(lower_hex|upper_hex|binary|octal)::<")
def _(m, callee, args):
    v = deref_all(m, args[0])
    if is_sym(v) or not isinstance(v, int):
        raise Unsupported('radix formatting of a symbolic value')
    kind = re.search(r'new_(\w+)::<', callee).group(1)
    text = {'lower_hex': '%x', 'upper_hex': '%X', 'octal': '%o'}.get(kind, '') % v if kind != 'binary' else bin(v)[2:]
    return ('fmtarg', RStr([ord(c) for c in text]), 'num', {'lower_hex': '0x', 'upper_hex': '0x', 'octal': '0o', 'binary': '0b'}[kind])


@model(r'::check_that_field_is_option::<')
def _(m, callee, args):
    # the derive's compile-time probe for `#[ts(optional)]` (a function with an empty body, local to the generated method)
    return ()


@model(r'str::<impl str>::(match_indices|rmatch_indices|matches)::<')
def _(m, callee, args):
    cs = rstr(m, args[0]).cs
    kind, p = _pat_pred(m, args[1])
    hits = []
    if kind == 'str':
        if not p:
            raise Unsupported('match_indices with an empty pattern')
        i = 0
        while True:
            i = find(m, cs, p, i)
            if i < 0:
                break
            hits.append((i, len(p)))
            i += len(p)
    else:
        for k, c in enumerate(cs):
            if any(cmp_char_eq(m, c, q) for q in p):
                hits.append((k, 1))
    if 'rmatch' in callee:
        hits.reverse()
    if '::matches::<' in callee:
        return PyIter('list', items=[S(cs[i:i + n]) for i, n in hits], pos=0)
    return PyIter('list', items=[(_blen(m, cs[:i]), S(cs[i:i + n])) for i, n in hits], pos=0)


@model(r'^String::(split_off|drain)$|^String::replace_range::<|^String::retain::<')
def _(m, callee, args):
    from .models import cidx
    r = args[0]
    cs = rstr(m, r).cs
    if callee.endswith('split_off'):
        i = cidx(m, cs, args[1], 'split index')
        m.write_place(r.frame, r.place, RStr(cs[:i]))
        return RStr(cs[i:])
    if 'retain' in callee:
        m.write_place(r.frame, r.place, RStr([c for c in cs if truthy(m, m.call_closure(args[1], [c]))]))
        return ()
    raise Unsupported(callee)


def cmp_values(m, a, b):
    """total order of std `Ord` on the value kinds the models know: strings, integers, bools, tuples, `Reverse(..)`"""
    a, b = deref_all(m, a), deref_all(m, b)
    if isinstance(a, Struct) and 'Reverse' in str(getattr(a, 'name', '')):
        return -cmp_values(m, a.fields[0], b.fields[0])
    if isinstance(a, RStr) and isinstance(b, RStr):
        if str_eq(m, a, b):
            return 0
        return -1 if str_lt(m, a.cs, b.cs) else 1
    if isinstance(a, tuple) and isinstance(b, tuple):
        for x, y in zip(a, b):
            c = cmp_values(m, x, y)
            if c:
                return c
        return (len(a) > len(b)) - (len(a) < len(b))
    if is_sym(a) or is_sym(b):
        raise Unsupported('ordering of symbolic integers')
    if isinstance(a, (int, bool)) and isinstance(b, (int, bool)):
        return (a > b) - (a < b)
    raise Unsupported(f'ordering of {a!r} and {b!r}')


@model(r'slice::<impl \[.*\]>::(sort_by_key|sort_unstable_by_key|sort_by_cached_key)::<')
def _(m, callee, args):
    v = deref_all(m, args[0])
    items = list(v.items if isinstance(v, RVec) else v)
    keyed = [(m.call_closure(args[1], [ValRef(it)]), it) for it in items]
    out = []
    for k, it in keyed:
        i = 0
        while i < len(out) and cmp_values(m, out[i][0], k) <= 0:
            i += 1
        out.insert(i, (k, it))
    res = [it for _, it in out]
    if isinstance(v, RVec):
        v.items[:] = res
    else:
        v[:] = res
    return ()


@model(r'slice::<impl \[.*\]>::binary_search$|slice::<impl \[.*\]>::binary_search_by_key::<')
def _(m, callee, args):
    v = deref_all(m, args[0])
    items = list(v.items if isinstance(v, RVec) else v)
    if 'by_key' in callee:
        raise Unsupported('binary_search_by_key')
    # the algorithm of core::slice::binary_search_by (the result on an unsorted slice is part of its observable behaviour)
    size, base = len(items), 0
    if size == 0:
        return ERR(0)
    while size > 1:
        half = size // 2
        mid = base + half
        if cmp_values(m, items[mid], args[1]) <= 0:
            base = mid
        size -= half
    c = cmp_values(m, items[base], args[1])
    return OK(base) if c == 0 else ERR(base + (1 if c < 0 else 0))


@model(r'^std::cmp::Reverse::<|^Reverse::<')
def _(m, callee, args):
    return Struct([args[0]], 'Reverse')


@model(r'^(std::vec::|alloc::vec::)?from_elem::<')
def _(m, callee, args):
    n = args[1]
    if is_sym(n):
        raise Unsupported('vec![x; n] with a symbolic n')
    return RVec([args[0]] * n)


@model(r'str::<impl str>::split::<\{closure|str::<impl str>::split::<fn|str::<impl str>::split_terminator::<')
def _(m, callee, args):
    cs = rstr(m, args[0]).cs
    pat = args[1]
    d = deref_all(m, pat)
    parts, cur = [], []
    for c in cs:
        if isinstance(d, (int,)) or is_sym(d):
            hit = cmp_char_eq(m, c, d)
        elif isinstance(d, RStr):
            raise Unsupported('split_terminator with a string pattern')
        else:
            hit = truthy(m, m.call_closure(pat, [c]))
        if hit:
            parts.append(cur)
            cur = []
        else:
            cur.append(c)
    if cur or 'split_terminator' not in callee:
        parts.append(cur)
    return PyIter('list', items=[S(x) for x in parts], pos=0)


@model(r'char::methods::<impl char>::(to_uppercase|to_lowercase)$')
def _(m, callee, args):
    from . import unicode as U_
    from .models import charval
    return PyIter('list', items=U_.case_map(m, charval(m, args[0]), 'upper' if callee.endswith('uppercase') else 'lower'), pos=0)


@model(r'^Option::<.*>::or_else::<')
def _(m, callee, args):
    if disc_is(m, args[0], 1):
        return args[0]
    return m.call_closure(args[1], [])


@model(r'^Option::<.*>::(xor|and)$|^Option::<.*>::and::<')
def _(m, callee, args):
    a, b = disc_is(m, args[0], 1), disc_is(m, args[1], 1)
    if '::and' in callee:
        return args[1] if a else NONE()
    return args[0] if a and not b else (args[1] if b and not a else NONE())


@model(r'^<&*(u8|u16|u32|u64|usize|i8|i16|i32|i64|isize|char|bool) as PartialEq(<.*>)?>::(eq|ne)$')
def _(m, callee, args):
    a, b = deref_all(m, args[0]), deref_all(m, args[1])
    if is_sym(a) or is_sym(b):
        w = CH if 'char' in callee.split(' as ')[0] else None
        A = a if is_sym(a) else z3.BitVecVal(a, b.size())
        B = b if is_sym(b) else z3.BitVecVal(b, A.size())
        if A.size() != B.size():
            from .interp import bv as _bv
            A, B = _bv(A, max(A.size(), B.size())), _bv(B, max(A.size(), B.size()))
        r = m.ctx.decide(A == B)
    else:
        r = a == b
    return r if callee.endswith('::eq') else not r


# ---- catch-alls for the pattern-taking str methods (any pattern kind: &str, char, &[char], closure, fn item); more specific models
# registered earlier keep priority
def _segments(m, cs, pat):
    """[(start, end)] of the non-overlapping matches of the pattern in cs, left to right"""
    kind, p = _pat_pred(m, pat)
    hits = []
    if kind == 'str':
        if not p:
            raise Unsupported('empty string pattern')
        i = 0
        while True:
            i = find(m, cs, p, i)
            if i < 0:
                break
            hits.append((i, i + len(p)))
            i += len(p)
    else:
        for k, c in enumerate(cs):
            if any(cmp_char_eq(m, c, q) for q in p):
                hits.append((k, k + 1))
    return hits


@model(r'str::<impl str>::split_once::<')
def _(m, callee, args):
    cs = rstr(m, args[0]).cs
    hits = _segments(m, cs, args[1])
    if not hits:
        return NONE()
    a, b_ = hits[0]
    return some((S(cs[:a]), S(cs[b_:])))


@model(r'str::<impl str>::(split|rsplit|split_terminator|split_inclusive)::<')
def _(m, callee, args):
    cs = rstr(m, args[0]).cs
    hits = _segments(m, cs, args[1])
    parts, start = [], 0
    incl = 'split_inclusive' in callee
    for a, b_ in hits:
        parts.append(cs[start:b_ if incl else a])
        start = b_
    if start < len(cs) or not ('split_terminator' in callee or incl):
        parts.append(cs[start:])
    if '::rsplit::<' in callee:
        parts.reverse()
    return PyIter('list', items=[S(x) for x in parts], pos=0)


@model(r'str::<impl str>::(replace|replacen)::<')
def _(m, callee, args):
    cs = rstr(m, args[0]).cs
    to = rstr(m, args[2]).cs
    hits = _segments(m, cs, args[1])
    if 'replacen' in callee:
        hits = hits[:args[3]]
    out, start = [], 0
    for a, b_ in hits:
        out += cs[start:a] + to
        start = b_
    return RStr(out + cs[start:])


@model(r' as Iterator>::map_while::<')
def _(m, callee, args):
    out = []
    while True:
        x = it_next(m, args[0])
        if x is None:
            break
        r = m.call_closure(args[1], [x])
        if not disc_is(m, r, 1):
            break
        out.append(r.fields[0])
    return PyIter('list', items=out, pos=0)


@model(r' as Iterator>::scan::<| as Iterator>::inspect::<')
def _(m, callee, args):
    if 'inspect' in callee:
        items = drain(m, args[0])
        for x in items:
            m.call_closure(args[1], [ValRef(x)])
        return PyIter('list', items=items, pos=0)
    raise Unsupported('Iterator::scan')


@model(r'^Path::canonicalize$|^(std::fs::)?canonicalize::<')
def _(m, callee, args):
    fs = _fs(m)
    p = fs.resolve(m, args[0])
    if p not in fs.nodes:
        return ERR(io_err('NotFound'))
    return OK(RStr([ord(c) for c in p]))


@model(r'^Path::(read_link|symlink_metadata)$|^Path::is_symlink$')
def _(m, callee, args):
    raise Unsupported('symlink inspection')


@model(r' as FnOnce<.*>>::call_once$| as FnMut<.*>>::call_mut$| as Fn<.*>>::call$')
def _(m, callee, args):
    """a closure / fn item invoked through the Fn* traits (`f()` where f: impl FnOnce() -> T)"""
    a = args[1] if len(args) > 1 else ()
    a = deref_all(m, a) if isinstance(a, (Ref, ValRef)) else a
    return m.call_closure(args[0], list(a) if isinstance(a, (tuple, list)) else [a])


@model(r'^<(std::sync::)?Mutex<.*> as (std::default::)?Default>::default$|^(std::sync::)?Mutex::<.*>::new$')
def _(m, callee, args):
    """a mutex around a fresh value (Default) or the given one; the export registry keeps its dedicated model (get_export_paths)"""
    if callee.endswith('::new') and args:
        return ('mutex', args[0])
    q = re.search(r'Mutex<(.*)> as', callee)
    return ('mutex', default_of(q.group(1)) if q else HMap())


@model(r'^<(std::sync::)?OnceLock<.*> as (std::default::)?Default>::default$')
def _(m, callee, args):
    return ('oncelock-static',)
