"""An abstract universe of exportable types U0..Un for the generic runtime functions of ts-rs (export_to<T>, generate_imports<T>,
export_recursive<T>, the default methods of `trait TS` ...). The harness defines, per type, what the derive would have generated
(name, decl, output_path, DOCS, dependency visits); everything else runs the real MIR with T := Ui."""
import re

from .interp import RStr, Enum, Ref, ValRef, Panic
from .mirparse import Unsupported


class UType:
    def __init__(self, name, decl=None, out=None, deps=(), docs=None, generics=(), without_generics=None):
        self.name = list(name)            # chars (may be symbolic)
        self.decl = list(decl) if decl is not None else None
        self.out = list(out) if out is not None else None   # relative output path, None = not exportable
        self.deps = list(deps)            # indices visited by visit_dependencies, in order (repeats allowed)
        self.docs = list(docs) if docs is not None else None
        self.generics = list(generics)
        self.without_generics = without_generics      # index of the dummy-parameter form `T::WithoutGenerics` (None: the type itself)


def some(v):
    return Enum(1, [v], 'Some')


def none():
    return Enum(0, [], 'None')


class Universe:
    RX = re.compile(r'^<U(\d+) as (?:crate::)?TS>::(\w+)(?:::<(.*)>)?$')

    def __init__(self, types):
        self.types = types
        self.visit_log = []

    def install(self, m):
        m.stubs.append((self.RX, self.method))
        m.stubs.append((re.compile(r'^TypeId::of::<(.*)>$'), lambda mm, c, a: ('typeid', re.match(r'^TypeId::of::<(.*)>$', c).group(1))))
        m.stubs.append((re.compile(r'^(std::any::)?type_name::<(.*)>$'),
                        lambda mm, c, a: ValRef(RStr([ord(x) for x in re.search(r'type_name::<(.*)>$', c).group(1)]))))
        def wg(a):
            i = int(a.group(1)[1:])
            t = self.types[i] if i < len(self.types) else None
            return f'U{t.without_generics}' if t is not None and t.without_generics is not None else a.group(1)
        m.type_rewrites = list(m.type_rewrites) + [(re.compile(r'<(U\d+) as (?:crate::)?TS>::WithoutGenerics'), wg),
                                                     (re.compile(r'<(U\d+) as (?:crate::)?TS>::OptionInnerType'), r'\1')]
        prev = m.const_hook

        def hook(mm, text):
            q = re.match(r'^<U(\d+) as (?:crate::)?TS>::(DOCS|IS_OPTION)$', text)
            if q:
                t = self.types[int(q.group(1))]
                if q.group(2) == 'IS_OPTION':
                    return False
                return none() if t.docs is None else some(ValRef(RStr(t.docs)))
            return prev(mm, text) if prev else None
        m.const_hook = hook

    def method(self, m, callee, args):
        q = self.RX.match(callee)
        i, meth, targ = int(q.group(1)), q.group(2), q.group(3)
        if i >= len(self.types):
            raise Unsupported(f'universe has no type U{i}')
        t = self.types[i]
        if meth in ('name', 'ident', 'inline', 'inline_flattened'):
            return RStr(t.name)
        if meth in ('decl', 'decl_concrete'):
            if t.decl is None:
                raise Panic(f'U{i} cannot be declared')
            return RStr(t.decl)
        if meth == 'output_path':
            return none() if t.out is None else some(RStr(t.out))
        if meth == 'visit_dependencies':
            self.visit_log.append(i)
            for d in t.deps:
                m.call(f'<{targ} as TypeVisitor>::visit::<U{d}>', [args[0]])
            return ()
        if meth == 'visit_generics':
            for d in t.generics:
                m.call(f'<{targ} as TypeVisitor>::visit::<U{d}>', [args[0]])
            return ()
        # everything else: the trait's default body in the real MIR with Self := Ui
        head = f'TS::{meth}'
        if head in m.fns and hasattr(m.fns[head], 'blocks'):
            saved = getattr(m, 'cur_subst', {})
            from .mirparse import split_top
            m.cur_subst = m.bind_generics(head, split_top(targ) if targ else [], {'Self': f'U{i}'})
            try:
                return m.exec_fn(m.fns[head], args)
            finally:
                m.cur_subst = saved
        raise Unsupported(f'no definition for {callee}')
