"""Build steps, all re-derived from /repo's current working tree and cached by content hash:

  * MIR text dumps (`cargo +nightly rustc -- -Zunpretty=mir`) of ts-rs-macros / ts-rs / oracle / corpus crates
  * native helper binaries (re-rooted copies of the crate sources with a `verif_replay` module appended)

Nothing is ever written into /repo. Scratch source copies live under $TMPDIR and are removed again.
"""
import hashlib
import os
import pickle
import re
import shutil
import subprocess
import sys
import tempfile
import time

VERIF = os.path.dirname(os.path.dirname(os.path.abspath(__file__)))
REPO = os.environ.get('VERIF_REPO', '/repo')
CACHE = os.path.join(VERIF, '.cache')
ENV = dict(os.environ, CARGO_NET_OFFLINE='true', CARGO_TERM_COLOR='never')
ENV.pop('RUSTFLAGS', None)

BUILD_LOG = []   # (what, seconds, cached?)


class BuildError(Exception):
    pass


def _files(root, exts=('.rs', '.toml')):
    out = []
    for d, _, fs in os.walk(root):
        if '/target' in d or '/.git' in d:
            continue
        for f in fs:
            if f.endswith(exts):
                out.append(os.path.join(d, f))
    return sorted(out)


def tree_hash(*roots, extra=''):
    h = hashlib.sha256()
    for root in roots:
        files = [root] if os.path.isfile(root) else _files(root)
        for f in files:
            h.update(os.path.relpath(f, '/').encode())
            h.update(b'\0')
            with open(f, 'rb') as fh:
                h.update(fh.read())
            h.update(b'\0')
    h.update(extra.encode())
    return h.hexdigest()[:16]


def repo_hash(crate):
    """hash of everything a dump / helper of `crate` ('macros' | 'ts-rs') depends on"""
    roots = [os.path.join(REPO, 'macros', 'src'), os.path.join(REPO, 'macros', 'Cargo.toml'),
             os.path.join(REPO, 'Cargo.lock')]
    if crate != 'macros':
        roots += [os.path.join(REPO, 'ts-rs', 'src'), os.path.join(REPO, 'ts-rs', 'Cargo.toml')]
    return tree_hash(*roots)


def source_hashes():
    """per-file sha256 (short) of the sources the checks read -- goes into the evidence"""
    out = {}
    for root in (os.path.join(REPO, 'macros', 'src'), os.path.join(REPO, 'ts-rs', 'src')):
        for f in _files(root, ('.rs',)):
            with open(f, 'rb') as fh:
                out[os.path.relpath(f, REPO)] = hashlib.sha256(fh.read()).hexdigest()[:12]
    return out


def run(cmd, cwd=None, env=None, timeout=1800, stdout=subprocess.PIPE):
    p = subprocess.run(cmd, cwd=cwd, env=env or ENV, stdout=stdout, stderr=subprocess.PIPE, text=True, timeout=timeout)
    return p


def _forget_fingerprint(target_dir, pkg):
    fp = os.path.join(target_dir, 'debug', '.fingerprint')
    if os.path.isdir(fp):
        for d in os.listdir(fp):
            if d.startswith(pkg + '-'):
                shutil.rmtree(os.path.join(fp, d), ignore_errors=True)


def mir_dump(manifest, pkg, features=(), tag='', key_hash=None, no_default=False):
    """returns the path of the MIR text for the lib target of `manifest` under the given features"""
    os.makedirs(os.path.join(CACHE, 'mir'), exist_ok=True)
    feats = ','.join(features)
    h = key_hash or tree_hash(os.path.dirname(manifest))
    name = f'{tag or pkg}-{hashlib.sha256((feats + str(no_default)).encode()).hexdigest()[:6]}-{h}.mir'
    out = os.path.join(CACHE, 'mir', name)
    if os.path.exists(out) and os.path.getsize(out) > 1000:
        BUILD_LOG.append((f'mir {tag or pkg} [{feats}]', 0.0, True))
        return out
    t = time.time()
    target = os.path.join(CACHE, 'target-mir-' + (tag or pkg))
    # one dump at a time per target directory: concurrent checks (same or different trees) would otherwise delete each other's
    # fingerprints in mid-build
    import fcntl
    lock = open(target + '.lock', 'w')
    fcntl.flock(lock, fcntl.LOCK_EX)
    try:
        return _mir_dump_locked(manifest, pkg, feats, tag, no_default, out, target, t)
    finally:
        fcntl.flock(lock, fcntl.LOCK_UN)
        lock.close()


def _mir_dump_locked(manifest, pkg, feats, tag, no_default, out, target, t):
    if os.path.exists(out) and os.path.getsize(out) > 1000:      # another process produced it while we waited
        BUILD_LOG.append((f'mir {tag or pkg} [{feats}]', 0.0, True))
        return out
    _forget_fingerprint(target, pkg.replace('-', '_'))
    _forget_fingerprint(target, pkg)
    cmd = ['cargo', '+nightly', 'rustc', '--offline', '--manifest-path', manifest, '--lib', '--target-dir', target]
    if no_default:
        cmd.append('--no-default-features')
    if feats:
        cmd += ['--features', feats]
    cmd += ['--', '-Zunpretty=mir', '-C', 'debug-assertions=off', '-C', 'overflow-checks=on', '--cap-lints=warn']
    p = run(cmd, cwd=VERIF)
    if p.returncode != 0 or len(p.stdout) < 1000:
        raise BuildError(f'MIR dump failed for {manifest} [{feats}]:\n{p.stderr[-3000:]}')
    tmp = out + '.tmp%d' % os.getpid()
    with open(tmp, 'w') as fh:
        fh.write(p.stdout)
    os.replace(tmp, out)
    BUILD_LOG.append((f'mir {tag or pkg} [{feats}]', time.time() - t, False))
    return out


def macros_mir(features=('serde-compat',)):
    return mir_dump(os.path.join(REPO, 'macros', 'Cargo.toml'), 'ts-rs-macros', features,
                    tag='macros', key_hash=repo_hash('macros'), no_default=True)


def tsrs_mir(features=()):
    return mir_dump(os.path.join(REPO, 'ts-rs', 'Cargo.toml'), 'ts-rs', features,
                    tag='tsrs', key_hash=repo_hash('ts-rs'))


def parsed(mir_path):
    """parse (and cache the parse of) a MIR dump"""
    from . import mirparse
    pk = mir_path + '.pickle'
    ph = tree_hash(os.path.join(VERIF, 'mirsym', 'mirparse.py'))
    if os.path.exists(pk):
        try:
            with open(pk, 'rb') as fh:
                tag, fns = pickle.load(fh)
            if tag == ph:
                return fns
        except Exception:
            pass
    with open(mir_path) as fh:
        fns = mirparse.parse_mir(fh.read())
    tmp = pk + '.tmp%d' % os.getpid()
    with open(tmp, 'wb') as fh:
        pickle.dump((ph, fns), fh)
    os.replace(tmp, pk)
    return fns


# ------------------------------------------------------------------------------------------ native helpers
def _scratch():
    d = tempfile.mkdtemp(prefix='tsrs-verif-')
    return d


def native_helper(kind):
    """build (or fetch from cache) the native helper binary of `kind` in ('macros', 'tsrs', 'tsrs-esm').
    The crate sources are copied byte-for-byte from /repo into a scratch directory; only the files named in
    native/<kind>.patch.py are appended to."""
    from . import native_gen
    h = tree_hash(os.path.join(VERIF, 'native'), os.path.join(VERIF, 'mirsym', 'native_gen.py'),
                  extra=repo_hash('ts-rs') + kind)
    outdir = os.path.join(CACHE, 'native-bin')
    os.makedirs(outdir, exist_ok=True)
    out = os.path.join(outdir, f'{kind}-{h}')
    if os.path.exists(out):
        try:
            os.utime(out, None)
        except OSError:
            pass
        BUILD_LOG.append((f'native {kind}', 0.0, True))
        return out
    t = time.time()
    import fcntl
    lock = open(os.path.join(CACHE, f'target-native-{kind}.lock'), 'w')
    fcntl.flock(lock, fcntl.LOCK_EX)       # released when the process exits or the file object is collected
    if os.path.exists(out):                # built by a concurrent check while we waited
        lock.close()
        BUILD_LOG.append((f'native {kind}', 0.0, True))
        return out
    scratch = _scratch()
    try:
        native_gen.generate(kind, scratch, REPO)
        target = os.path.join(CACHE, 'target-native-' + kind)
        cmd = ['cargo', 'build', '--offline', '--manifest-path', os.path.join(scratch, 'helper', 'Cargo.toml'),
               '--target-dir', target]
        wrap = os.path.join(VERIF, 'native', 'rustc-wrap')
        env = dict(ENV, RUSTC_WRAPPER=wrap)
        p = run(cmd, cwd=scratch, env=env)
        if p.returncode != 0:
            raise BuildError(f'native helper {kind} failed to build:\n{p.stderr[-4000:]}')
        binp = os.path.join(target, 'debug', 'helper')
        tmp = out + '.tmp%d' % os.getpid()
        shutil.copy2(binp, tmp)
        os.replace(tmp, out)
    finally:
        shutil.rmtree(scratch, ignore_errors=True)
        lock.close()
    # keep the cache small: drop binaries of the same kind that have not been used for hours (concurrent runs on other trees may
    # still be using recent ones)
    now = time.time()
    for f in os.listdir(outdir):
        fp = os.path.join(outdir, f)
        if f.startswith(kind + '-') and fp != out and '.tmp' not in f:
            try:
                if now - os.path.getmtime(fp) > 6 * 3600:
                    os.remove(fp)
            except OSError:
                pass
    BUILD_LOG.append((f'native {kind}', time.time() - t, False))
    return out


class Native:
    """line protocol: request `cmd\\targ\\targ...` -> response one line; fields are escaped with esc()"""

    def __init__(self, kind):
        self.path = native_helper(kind)
        self.kind = kind
        self.calls = 0

    @staticmethod
    def esc(s):
        return s.replace('\\', '\\\\').replace('\t', '\\t').replace('\n', '\\n').replace('\r', '\\r')

    @staticmethod
    def unesc(s):
        out, i = [], 0
        while i < len(s):
            c = s[i]
            if c == '\\' and i + 1 < len(s):
                n = s[i + 1]
                out.append({'n': '\n', 't': '\t', 'r': '\r', '\\': '\\'}.get(n, n))
                i += 2
            else:
                out.append(c)
                i += 1
        return ''.join(out)

    def batch(self, requests, env=None, cwd=None, timeout=600):
        """requests: list of [cmd, arg...]; returns list of response field-lists"""
        if not requests:
            return []
        inp = ''.join('\t'.join(self.esc(x) for x in r) + '\n' for r in requests)
        e = dict(os.environ)
        e.pop('TS_RS_EXPORT_DIR', None)
        if env:
            e.update(env)
        p = subprocess.run([self.path], input=inp.encode('utf-8', 'surrogatepass'), stdout=subprocess.PIPE,
                           stderr=subprocess.PIPE, env=e, cwd=cwd, timeout=timeout)
        lines = p.stdout.decode('utf-8', 'replace').split('\n')
        if lines and lines[-1] == '':
            lines.pop()
        if len(lines) != len(requests):
            raise BuildError(f'native helper {self.kind}: {len(requests)} requests, {len(lines)} answers; rc={p.returncode}\n'
                             + p.stderr.decode('utf-8', 'replace')[-2000:])
        self.calls += len(requests)
        return [[self.unesc(f) for f in ln.split('\t')] for ln in lines]

    def one(self, *req, **kw):
        return self.batch([list(req)], **kw)[0]


# ------------------------------------------------------------------------------------------ serde oracle
def serde_case_path():
    """serde_derive's own internals/case.rs, in the version pinned by /repo/Cargo.lock"""
    lock = open(os.path.join(REPO, 'Cargo.lock')).read()
    m = re.search(r'name = "serde_derive"\nversion = "([^"]+)"', lock)
    if not m:
        raise BuildError('serde_derive not in Cargo.lock')
    ver = m.group(1)
    base = os.path.expanduser('~/.cargo/registry/src')
    for d in sorted(os.listdir(base)):
        p = os.path.join(base, d, f'serde_derive-{ver}', 'src', 'internals', 'case.rs')
        if os.path.exists(p):
            return p, ver
    raise BuildError(f'serde_derive-{ver} sources not found in the cargo registry')


def serde_case_mir():
    src, ver = serde_case_path()
    d = os.path.join(CACHE, 'oracle-serde-case')
    os.makedirs(os.path.join(d, 'src'), exist_ok=True)
    with open(os.path.join(d, 'Cargo.toml'), 'w') as fh:
        fh.write('[package]\nname = "serde_case_oracle"\nversion = "0.0.0"\nedition = "2021"\n[workspace]\n')
    with open(os.path.join(d, 'src', 'lib.rs'), 'w') as fh:
        fh.write(f'#![allow(dead_code)]\n#[path = "{src}"]\npub mod case;\n')
    return mir_dump(os.path.join(d, 'Cargo.toml'), 'serde_case_oracle', (), tag='serdecase', key_hash=tree_hash(src)), ver


# ------------------------------------------------------------------------------------------ corpus of derive-generated impls (tier B)
def corpus_mir(features=()):
    src = os.path.join(VERIF, 'corpus', 'lib.rs')
    d = os.path.join(CACHE, 'corpus-crate')
    os.makedirs(os.path.join(d, 'src'), exist_ok=True)
    shutil.copy(src, os.path.join(d, 'src', 'lib.rs'))
    lock = os.path.join(REPO, 'Cargo.lock')
    if os.path.exists(lock):
        shutil.copy(lock, os.path.join(d, 'Cargo.lock'))
    feats = ', '.join(f'"{f}"' for f in features)
    with open(os.path.join(d, 'Cargo.toml'), 'w') as fh:
        fh.write(f'[package]\nname = "corpus"\nversion = "0.0.0"\nedition = "2021"\n[workspace]\n[dependencies]\n'
                 f'ts-rs = {{ path = "{os.path.join(REPO, "ts-rs")}", features = [{feats}] }}\n')
    return mir_dump(os.path.join(d, 'Cargo.toml'), 'corpus', (), tag='corpus', key_hash=tree_hash(src, extra=repo_hash('ts-rs') + ','.join(features)))
