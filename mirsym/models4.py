"""prototype token-level model of syn::parse::ParseBuffer for the impl_parse! parsers"""
import re
import z3
from .interp import RStr, Enum, Struct, Ref, ValRef, Panic, is_sym, bv, CH
from .mirparse import Unsupported
from .models import MODELS, model, rstr
from .models2 import deref_all, str_eq
from .models3 import OK, ERR, NONE, some, HMap


class PBuf:
    """flat token list: ('ident', RStr) ('punct', ch) ('litstr', RStr) ('litint',) ('group', id)"""
    def __init__(self, toks):
        self.toks = toks
        self.pos = 0

    def peek(self):
        return self.toks[self.pos] if self.pos < len(self.toks) else None


def synerr(msg):
    return ('synerr', msg)


def buf(m, v):
    return deref_all(m, v)


@model(r"^ParseBuffer::<'_>::call::<proc_macro2::Ident>$|^<proc_macro2::Ident as Parse>::parse$")
def _(m, callee, args):
    b = buf(m, args[0])
    t = b.peek()
    if t and t[0] == 'ident':
        b.pos += 1
        return OK(('ident', t[1]))
    return ERR(synerr('expected identifier'))


@model(r'^<proc_macro2::Ident as ToString>::to_string$')
def _(m, callee, args):
    return RStr(deref_all(m, args[0])[1].cs)


@model(r'^String::as_str$')
def _(m, callee, args):
    return ValRef(rstr(m, args[0]))


@model(r'^<str as PartialEq>::eq$')
def _(m, callee, args):
    return str_eq(m, rstr(m, args[0]), rstr(m, args[1]))


@model(r"^ParseBuffer::<'_>::is_empty$")
def _(m, callee, args):
    b = buf(m, args[0])
    return b.pos >= len(b.toks)


@model(r"^ParseBuffer::<'_>::span$|^LitStr::span$|lit::value::<impl syn::Lit>::span$")
def _(m, callee, args):
    return ('span',)


def _punct_of(callee):
    return {'Comma': ',', 'Eq': '='}[re.search(r'syn::token::(\w+)', callee).group(1)]


@model(r"^ParseBuffer::<'_>::parse::<syn::token::(Comma|Eq)>$")
def _(m, callee, args):
    b = buf(m, args[0])
    p = _punct_of(callee)
    t = b.peek()
    if t and t[0] == 'punct' and t[1] == p:
        b.pos += 1
        return OK(('tok', p))
    return ERR(synerr(f'expected `{p}`'))


@model(r"^ParseBuffer::<'_>::peek::<")
def _(m, callee, args):
    b = buf(m, args[0])
    p = _punct_of(callee)
    t = b.peek()
    return bool(t and t[0] == 'punct' and t[1] == p)


@model(r'^<syn::Lit as Parse>::parse$')
def _(m, callee, args):
    b = buf(m, args[0])
    t = b.peek()
    if t and t[0] == 'litstr':
        b.pos += 1
        return OK(Enum(0, [('litstr', t[1])], 'Str'))
    if t and t[0] == 'litint':
        b.pos += 1
        return OK(Enum(5, [('litint',)], 'Int'))
    return ERR(synerr('expected literal'))


@model(r'^LitStr::value$')
def _(m, callee, args):
    return RStr(deref_all(m, args[0])[1].cs)


@model(r'^<syn::Expr as Parse>::parse$')
def _(m, callee, args):
    b = buf(m, args[0])
    t = b.peek()
    if t and t[0] in ('litstr', 'litint', 'ident', 'group'):
        b.pos += 1
        return OK(('expr', t))
    return ERR(synerr('expected expression'))


@model(r'^syn::Error::new::<')
def _(m, callee, args):
    msg = deref_all(m, args[1])
    return synerr(''.join(chr(c) if isinstance(c, int) else '?' for c in msg.cs) if isinstance(msg, RStr) else str(msg))


@model(r'^<(Option<.*>|bool|String|HashMap<.*>) as (std::default::)?Default>::default$')
def _(m, callee, args):
    if callee.startswith('<Option'):
        return NONE()
    if callee.startswith('<bool'):
        return False
    if callee.startswith('<String'):
        return RStr([])
    return HMap()


@model(r'^skip_until_next_comma$')
def _(m, callee, args):
    # prototype shortcut (the real build runs its MIR through ParseBuffer::step / Cursor::token_tree):
    # consumes token trees up to, not including, the token before a ',' -- mirrors the real loop:
    # it stops when the *next* tree after the current one is a comma, leaving the cursor ON that comma's predecessor's end
    b = buf(m, args[0])
    stuff = []
    rest = b.pos
    while rest < len(b.toks):
        nxt = rest + 1
        if nxt < len(b.toks) and b.toks[nxt] == ('punct', ','):
            b.pos = nxt
            return ('tokens', stuff)
        stuff.append(b.toks[rest])
        rest = nxt
    b.pos = rest
    return ('tokens', stuff)


@model(r'^print_warning::<')
def _(m, callee, args):
    return OK(())


@model(r"^core::fmt::rt::Argument::<'_>::new_display::<(proc_macro2::TokenStream|&str)>$")
def _(m, callee, args):
    v = deref_all(m, args[0])
    return ('fmtarg', v if isinstance(v, RStr) else RStr([ord('?')]))


@model(r'^proc_macro2::Span::call_site$|^Span::call_site$')
def _(m, callee, args):
    return ('span',)


@model(r'^syn::Error::new_spanned::<')
def _(m, callee, args):
    msg = deref_all(m, args[1])
    return synerr(''.join(chr(c) if isinstance(c, int) else '?' for c in msg.cs) if isinstance(msg, RStr) else str(msg))


@model(r' as Spanned>::span$')
def _(m, callee, args):
    return ('span',)
