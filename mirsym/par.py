"""process-level parallelism: work items are independent explorations; results are plain data"""
import multiprocessing as mp
import os
import traceback

_FN = None


def _call(item):
    try:
        return _FN(item)
    except Exception as e:     # noqa: a crashed worker must never look like a pass
        return {'inconclusive': [f'worker crashed on {item!r}: {type(e).__name__}: {e}\n{traceback.format_exc()[-1500:]}']}


def pmap(fn, items, procs=None):
    """fn must be a module-level function; globals prepared before the call are inherited by fork"""
    global _FN
    items = list(items)
    procs = procs or min(len(items), int(os.environ.get('VERIF_PROCS', '0')) or os.cpu_count() or 4)
    _FN = fn
    if procs <= 1 or len(items) <= 1:
        return [_call(i) for i in items]
    ctx = mp.get_context('fork')
    with ctx.Pool(procs) as pool:
        return pool.map(_call, items, chunksize=1)
