"""Evidence, known findings, exit codes (DESIGN.md 2.9)."""
import hashlib
import json
import os
import sys
import time

from . import build

VERIF = build.VERIF
KF_PATH = os.path.join(VERIF, 'known_findings.json')


def load_known(pid):
    """ids of the finding classes of property `pid` that are listed as known (not fixed)"""
    if not os.path.exists(KF_PATH):
        return {}
    with open(KF_PATH) as fh:
        data = json.load(fh)
    return {e['id']: e for e in data.get('findings', []) if pid in e.get('properties', [e.get('property')])
            and e.get('status') == 'known'}


class Report:
    def __init__(self, pid, level_text):
        self.pid = pid
        self.tier = 'thorough' if os.environ.get('VERIF_TIER', 'quick') == 'thorough' else 'quick'
        try:
            self.seed = int(os.environ.get('VERIF_SEED', '0'))
        except ValueError:
            self.seed = 0
        self.t0 = time.time()
        self.level_text = level_text
        self.functions = []        # real functions executed symbolically
        self.bounds = {}
        self.models = set()        # std callees answered by models
        self.stubs = []            # overrides of real bodies
        self.assumptions = []
        self.outside = []
        self.paths = 0
        self.nontrivial_paths = 0
        self.queries = 0
        self.solver_s = 0.0
        self.obligations = 0
        self.discharged = 0
        self.samples = []
        self.violations = []       # dicts: {'what':.., 'witness':.., 'native':..}
        self.known_hits = {}       # finding id -> witness
        self.inconclusive = []
        self.validation = {}       # name -> (cases, mismatches)
        self.crosschecks = {}
        self.configs = []
        self.known = load_known(pid)
        self.parts = {}

    # ---- accumulation from worker results
    def absorb(self, r):
        self.paths += r.get('paths', 0)
        self.nontrivial_paths += r.get('nontrivial', 0)
        self.queries += r.get('queries', 0)
        self.solver_s += r.get('solver_s', 0.0)
        self.obligations += r.get('obligations', 0)
        self.discharged += r.get('discharged', 0)
        self.models.update(r.get('models', ()))
        for s in r.get('samples', ()):
            if len(self.samples) < 12:
                self.samples.append(s)
        self.violations.extend(r.get('violations', ()))
        for k, w in r.get('known_hits', {}).items():
            self.known_hits.setdefault(k, w)
        self.inconclusive.extend(r.get('inconclusive', ()))

    def part(self, name, **kw):
        self.parts[name] = kw

    def validated(self, name, cases, mismatches):
        c, m = self.validation.get(name, (0, 0))
        self.validation[name] = (c + cases, m + mismatches)

    # ---- output
    def write_evidence(self, n_viol):
        ev = {
            'property_id': self.pid,
            'tier': self.tier,
            'seed': self.seed,
            'level': 'other',
            'coverage': {
                'explanation': self.level_text,
                'evaluations': max(self.paths, 0),
                'distinct_nontrivial': self.nontrivial_paths,
                'rule': 'one evaluation = one feasible execution path of the real MIR under the harness (decision replay); '
                        'a path is non-trivial when its path condition contains at least one solver-decided branch on a '
                        'symbolic input, i.e. it stands for a set of inputs rather than one; paths are distinct by construction '
                        '(they differ in at least one branch decision)',
                'samples': self.samples[:12] or ['<none>'],
                'exhaustive': not self.inconclusive,
                'paths_explored': self.paths,
                'solver_queries': self.queries,
                'solver_seconds': round(self.solver_s, 2),
                'obligations': self.obligations,
                'discharged': self.discharged,
                'checker_cmd': f'./check {self.pid}',
                'trusted_base': ['rustc nightly MIR dump (-Zunpretty=mir) of the working tree', 'mirsym interpreter + std models (validated '
                                 'against the natively compiled code on every run)', 'z3 ' + _z3_version()],
                'functions_encoded': self.functions,
                'feature_configs': self.configs,
                'bounds': self.bounds,
                'outside_the_claim': self.outside,
                'std_models_used': sorted(self.models)[:400],
                'stub_overrides': self.stubs,
                'translator_validation': {k: {'cases': c, 'mismatches': m} for k, (c, m) in self.validation.items()},
                'cross_checks': self.crosschecks,
                'known_findings_hit': sorted(self.known_hits),
                'parts': self.parts,
                'inconclusive': self.inconclusive[:20],
                'build_steps': [{'what': w, 'seconds': round(s, 1), 'cached': c} for w, s, c in build.BUILD_LOG],
                'source_hashes': build.source_hashes(),
            },
            'assumptions': self.assumptions,
            'wall_s': round(time.time() - self.t0, 2),
            'violations': n_viol,
        }
        # runs against a scratch worktree (VERIF_REPO=..., used for seeded changes) must not overwrite the evidence of /repo
        scratch_run = os.path.realpath(build.REPO) != '/repo'
        edir = os.path.join(VERIF, '.cache', 'evidence-scratch') if scratch_run else os.path.join(VERIF, 'evidence')
        os.makedirs(edir, exist_ok=True)
        p = os.path.join(edir, f'{self.pid}.json')
        tmp = p + '.tmp'
        with open(tmp, 'w') as fh:
            json.dump(ev, fh, indent=1, ensure_ascii=False, default=str)
        os.replace(tmp, p)

    def finish(self):
        """prints the interface lines, writes the evidence, returns the exit code"""
        # de-duplicate violations by their 'key'
        seen, viols = set(), []
        for v in self.violations:
            k = v.get('key') or json.dumps(v.get('witness'), sort_keys=True, default=str)
            if k in seen:
                continue
            seen.add(k)
            viols.append(v)
        for fid in sorted(self.known_hits):
            e = self.known.get(fid)
            if e is None:
                # a class that is not (or no longer) listed is an ordinary violation
                viols.append({'what': f'class {fid} (not listed in known_findings.json)', 'witness': self.known_hits[fid]})
                continue
            print(f'KNOWN-FINDING: property={self.pid} {fid}: {e["what"]} [witness: {json.dumps(self.known_hits[fid], ensure_ascii=False, default=str)[:300]}]')
        code = 0
        if viols:
            os.makedirs(os.path.join(VERIF, 'replays'), exist_ok=True)
            for v in viols[:20]:
                blob = json.dumps(v, sort_keys=True, ensure_ascii=False, default=str)
                hh = hashlib.sha256(blob.encode()).hexdigest()[:10]
                path = os.path.join(VERIF, 'replays', f'{self.pid}-{hh}.json')
                with open(path, 'w') as fh:
                    json.dump(dict(v, property=self.pid, replay_cmd=f'./check {self.pid} --replay {path}'), fh, indent=1,
                              ensure_ascii=False, default=str)
                print(f'VIOLATION property={self.pid} replay={path}')
                print('  ' + str(v.get('what', ''))[:400])
            code = 1
        elif self.inconclusive:
            for r in self.inconclusive[:10]:
                print(f'INCONCLUSIVE property={self.pid}: {r}'[:600])
            code = 2
        self.write_evidence(len(viols))
        wall = time.time() - self.t0
        print(f'{self.pid} [{self.tier}] paths={self.paths} queries={self.queries} obligations={self.discharged}/{self.obligations} '
              f'solver={self.solver_s:.1f}s wall={wall:.1f}s exit={code}')
        return code


def _z3_version():
    try:
        import z3
        return z3.get_version_string()
    except Exception:
        return '?'
