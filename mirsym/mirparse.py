"""Parser for rustc's `-Zunpretty=mir` text (prototype).

Produces Fn objects: params, locals (with types), basic blocks of parsed statements.
Only the constructs met in the ts-rs kernels are handled; anything else raises
Unsupported so that a check becomes inconclusive instead of silently wrong.
"""
import re


class Unsupported(Exception):
    pass


class Fn:
    def __init__(self, name, params, ret, locals_, blocks, text):
        self.name = name
        self.params = params      # [(local, type)]
        self.ret = ret
        self.locals = locals_     # {local: type}
        self.blocks = blocks      # {bbN: [stmt...]} last is terminator
        self.text = text


# ---------------------------------------------------------------- tokens
_CHAR_LIT = re.compile(r"'(\\(x[0-9a-fA-F]{2}|u\{[0-9a-fA-F]+\}|.)|[^'\\])'")


def mask(s):
    """same-length copy of s with the contents of string / byte-string / char literals blanked,
    so that bracket scanning is not confused by quotes or brackets inside literals"""
    out = list(s)
    i, n = 0, len(s)
    while i < n:
        c = s[i]
        if c == '"':
            j = i + 1
            while j < n and s[j] != '"':
                j += 2 if s[j] == '\\' else 1
            for k in range(i + 1, min(j, n)):
                out[k] = 'x'
            i = j + 1
            continue
        if c == "'":
            m = _CHAR_LIT.match(s, i)
            if m:
                for k in range(i + 1, m.end() - 1):
                    out[k] = 'x'
                i = m.end()
                continue
        i += 1
    return ''.join(out)

def split_top(s, sep=','):
    """split on sep at nesting depth 0 w.r.t. ()[]{}<>, ignoring literal contents"""
    ms = mask(s)
    out, depth, last = [], 0, 0
    for i, c in enumerate(ms):
        if c in '([{':
            depth += 1
        elif c in ')]}':
            depth -= 1
        elif c == '<':
            depth += 1
        elif c == '>' and not (i > 0 and ms[i - 1] == '-'):
            depth -= 1
        if c == sep and depth == 0:
            out.append(s[last:i].strip())
            last = i + 1
    tail = s[last:].strip()
    if tail:
        out.append(tail)
    return out


def find_matching_close(s, open_idx):
    ms = mask(s)
    depth = 0
    for i in range(open_idx, len(ms)):
        c = ms[i]
        if c in '([{':
            depth += 1
        elif c in ')]}':
            depth -= 1
            if depth == 0:
                return i
    raise Unsupported('unbalanced: ' + s)


def rfind_open(s):
    """index of the '(' matching the final ')' of s"""
    ms = mask(s)
    depth = 0
    for i in range(len(ms) - 1, -1, -1):
        c = ms[i]
        if c in ')]}':
            depth += 1
        elif c in '([{':
            depth -= 1
            if depth == 0:
                return i
    raise Unsupported('unbalanced: ' + s)


# ---------------------------------------------------------------- places
class Place:
    __slots__ = ('local', 'proj')

    def __init__(self, local, proj):
        self.local = local
        self.proj = proj  # list of ('deref',), ('field', n), ('downcast', name), ('index', local), ('constidx', n)

    def __repr__(self):
        return f'Place({self.local},{self.proj})'


def parse_place(s):
    s = s.strip()
    p, rest = _place(s)
    if rest.strip():
        raise Unsupported('place trailing: ' + s)
    return p


def _place(s):
    s = s.lstrip()
    if s.startswith('('):
        close = find_matching_close(s, 0)
        inner = s[1:close]
        rest = s[close + 1:]
        if inner.startswith('*'):
            base, r = _place(inner[1:])
            if r.strip():
                raise Unsupported('deref inner: ' + s)
            pl = Place(base.local, base.proj + [('deref',)])
        else:
            base, r = _place(inner)
            r = r.strip()
            m = re.match(r'^\.(\d+): (.*)$', r)
            if m:
                pl = Place(base.local, base.proj + [('field', int(m.group(1)), m.group(2))])
            elif r.startswith('as '):
                pl = Place(base.local, base.proj + [('downcast', r[3:].strip())])
            else:
                raise Unsupported('place proj: ' + s)
    else:
        m = re.match(r'^_(\d+)', s)
        if not m:
            raise Unsupported('place: ' + s)
        pl = Place(int(m.group(1)), [])
        rest = s[m.end():]
    # index suffixes
    while rest.startswith('['):
        close = find_matching_close(rest, 0)
        idx = rest[1:close]
        m = re.match(r'^_(\d+)$', idx)
        if m:
            pl = Place(pl.local, pl.proj + [('index', int(m.group(1)))])
        else:
            m = re.match(r'^(\d+) of (\d+)$', idx)
            if m:
                pl = Place(pl.local, pl.proj + [('constidx', int(m.group(1)))])
            else:
                raise Unsupported('index: ' + rest)
        rest = rest[close + 1:]
    return pl, rest


# ---------------------------------------------------------------- operands
def unescape(body):
    out = []
    i = 0
    while i < len(body):
        c = body[i]
        if c == '\\':
            n = body[i + 1]
            if n == 'n':
                out.append(10); i += 2
            elif n == 't':
                out.append(9); i += 2
            elif n == 'r':
                out.append(13); i += 2
            elif n == '0':
                out.append(0); i += 2
            elif n in '\\"\'':
                out.append(ord(n)); i += 2
            elif n == 'x':
                out.append(int(body[i + 2:i + 4], 16)); i += 4
            elif n == 'u':
                j = body.index('}', i)
                out.append(int(body[i + 3:j], 16)); i = j + 1
            else:
                raise Unsupported('escape ' + body)
        else:
            out.append(ord(c)); i += 1
    return out


def parse_operand(s):
    s = s.strip()
    if s.startswith('no_retag '):
        s = s[len('no_retag '):]
    if s.startswith('copy '):
        return ('copy', parse_place(s[5:]))
    if s.startswith('move '):
        return ('move', parse_place(s[5:]))
    if s.startswith('const '):
        return ('const', parse_const(s[6:].strip()))
    if re.match(r'^[A-Za-z_<]', s):
        return ('const', ('path', s))
    raise Unsupported('operand: ' + s)


def parse_const(c):
    if c in ('true', 'false'):
        return ('bool', c == 'true')
    m = re.match(r'^(-?\d+)_(u8|u16|u32|u64|u128|usize|i8|i16|i32|i64|i128|isize)$', c)
    if m:
        return ('int', int(m.group(1)), m.group(2))
    if c.startswith('"'):
        return ('str', unescape(c[1:-1]))
    if c.startswith('b"'):
        return ('bytes', unescape(c[2:-1]))
    m = re.match(r"^'(.*)'$", c)
    if m:
        cp = unescape(m.group(1))
        return ('char', cp[0])
    if c.startswith('ZeroSized: '):
        return ('zst', c[len('ZeroSized: '):])
    if c == '()':
        return ('unit',)
    return ('path', c)


# ---------------------------------------------------------------- statements
BINOPS = {'Eq', 'Ne', 'Lt', 'Le', 'Gt', 'Ge', 'Add', 'Sub', 'Mul', 'Div', 'Rem', 'BitAnd', 'BitOr', 'BitXor',
          'Shl', 'Shr', 'AddWithOverflow', 'SubWithOverflow', 'MulWithOverflow', 'AddUnchecked', 'SubUnchecked',
          'Offset', 'Cmp'}
UNOPS = {'Not', 'Neg', 'PtrMetadata'}


def parse_rvalue(s):
    s = s.strip()
    if s.startswith('&raw '):
        raise Unsupported('raw ref: ' + s)
    if s.startswith('&mut '):
        return ('ref', parse_place(s[5:]), True)
    if s.startswith('&'):
        return ('ref', parse_place(s[1:]), False)
    m = re.match(r'^discriminant\((.*)\)$', s)
    if m:
        return ('discriminant', parse_place(m.group(1)))
    m = re.match(r'^Len\((.*)\)$', s)
    if m:
        return ('len', parse_place(m.group(1)))
    m = re.match(r'^([A-Za-z]+)\((.*)\)$', s)
    if m and m.group(1) in BINOPS:
        a, b = split_top(m.group(2))
        return ('binop', m.group(1), parse_operand(a), parse_operand(b))
    if m and m.group(1) in UNOPS:
        return ('unop', m.group(1), parse_operand(m.group(2)))
    mfp = re.match(r'^(.*) as (.*) \((PointerCoercion\(.*\))\)$', s)
    if mfp and not s.startswith(('copy ', 'move ', 'const "')):
        return ('cast', ('const', ('path', mfp.group(1))), mfp.group(2), mfp.group(3))
    if s.startswith(('copy ', 'move ', 'const ', 'no_retag ')):
        # maybe a cast: "<operand> as T (Kind)"
        m2 = re.match(r'^(.*) as (.*) \(([A-Za-z]+(\(.*\))?(, [A-Za-z]+)?)\)$', s)
        if m2 and not s.startswith('const "'):
            try:
                op = parse_operand(m2.group(1))
                return ('cast', op, m2.group(2), m2.group(3))
            except Unsupported:
                pass
        return ('use', parse_operand(s))
    if s.startswith('('):
        close = find_matching_close(s, 0)
        if close == len(s) - 1:
            inner = s[1:-1].strip()
            if inner.endswith(','):
                inner = inner[:-1]
            return ('tuple', [parse_operand(x) for x in split_top(inner)] if inner else [])
    if s.startswith('['):
        close = find_matching_close(s, 0)
        if close == len(s) - 1:
            inner = s[1:-1]
            if ';' in inner and len(split_top(inner, ';')) == 2:
                raise Unsupported('repeat array ' + s)
            return ('array', [parse_operand(x) for x in split_top(inner)] if inner.strip() else [])
    if s.startswith('{closure@'):
        return ('closure', s)
    # ADT aggregates
    m = re.match(r'^(.*?) \{ (.*) \}$', s)
    if m and not m.group(1).startswith(('copy', 'move')):
        fields = []
        for part in split_top(m.group(2)):
            k, v = part.split(': ', 1)
            fields.append((k.strip(), parse_operand(v)))
        return ('struct', m.group(1), fields)
    if s.endswith(')'):
        i = rfind_open(s)
        head = s[:i]
        if head and re.match(r'^[A-Za-z_<]', head) and not head.startswith(('copy ', 'move ', 'const ')):
            inner = s[i + 1:-1]
            return ('variant', head, [parse_operand(x) for x in split_top(inner)] if inner.strip() else [])
    if re.match(r'^[A-Za-z_<][\w:<>, \'#&\[\]]*$', s):
        return ('variant', s, [])
    raise Unsupported('rvalue: ' + s)


def parse_targets(t):
    # "[return: bb3, unwind continue]" / "[0: bb1, otherwise: bb2]" / "[success: bb2, unwind: bb9]"
    t = t.strip()
    assert t.startswith('[') and t.endswith(']'), t
    res = {}
    for part in split_top(t[1:-1]):
        if ': ' in part:
            k, v = part.split(': ', 1)
            res[k.strip()] = v.strip()
        else:
            k, _, v = part.partition(' ')
            res[k.strip()] = v.strip()
    return res


def parse_stmt(line):
    s = line.strip()
    assert s.endswith(';'), s
    s = s[:-1]
    if s == 'return':
        return ('return',)
    if s == 'unreachable':
        return ('unreachable',)
    if s.startswith('resume') or s.startswith('unwind '):
        return ('resume',)
    if s.startswith('goto -> '):
        return ('goto', s[8:].strip())
    if s.startswith('switchInt('):
        close = find_matching_close(s, len('switchInt'))
        op = parse_operand(s[len('switchInt('):close])
        tg = parse_targets(s[close + 1:].strip()[3:])
        return ('switch', op, tg)
    if s.startswith('drop('):
        close = find_matching_close(s, 4)
        tg = parse_targets(s[close + 1:].strip()[3:])
        return ('drop', parse_place(s[5:close]), tg)
    if s.startswith('assert('):
        close = find_matching_close(s, 6)
        inner = split_top(s[7:close])
        cond = inner[0]
        expected = True
        if cond.startswith('!'):
            expected = False
            cond = cond[1:]
        tg = parse_targets(s[close + 1:].strip()[3:])
        return ('assert', parse_operand(cond), expected, inner[1] if len(inner) > 1 else '', tg)
    if s.startswith(('StorageLive', 'StorageDead', 'FakeRead', 'PlaceMention', 'AscribeUserType', 'Retag',
                     'nop', 'Coverage', 'ConstEvalCounter', 'BackwardIncompatibleDropHint')):
        return ('nop',)
    # assignment or call
    m = re.match(r'^(.*?) = (.*)$', s)
    if not m:
        raise Unsupported('stmt: ' + s)
    lhs, rhs = m.group(1), m.group(2)
    mm = re.search(r' -> (\[return: .*\]|unwind .*|bb\d+|\[.*\])$', mask(rhs))
    if mm and rhs[:mm.start()].rstrip().endswith(')'):
        callpart = rhs[:mm.start()].rstrip()
        i = rfind_open(callpart)
        callee = callpart[:i].strip()
        args = [parse_operand(a) for a in split_top(callpart[i + 1:-1])]
        tg = parse_targets(mm.group(1)) if mm.group(1).startswith('[') else {}
        return ('call', parse_place(lhs), callee, args, tg)
    return ('assign', parse_place(lhs), parse_rvalue(rhs))


FN_RE = re.compile(r'^fn (.*?)\((.*)\) -> (.*) \{$')


def parse_mir(text):
    fns = {}
    lines = text.split('\n')
    i = 0
    while i < len(lines):
        ln = lines[i]
        mc = None
        if ln.startswith('const '):
            ms_, depth_, cut = mask(ln), 0, -1
            for ii in range(6, len(ms_) - 1):
                ch_ = ms_[ii]
                if ch_ == '<':
                    depth_ += 1
                elif ch_ == '>' and ms_[ii - 1] != '-':
                    depth_ -= 1
                elif ch_ == ':' and ms_[ii + 1] == ' ' and depth_ == 0:
                    cut = ii
                    break
            if cut > 0:
                nm_, rest_ = ln[6:cut], ln[cut + 2:]
                m1 = re.match(r'^(.*?) = const (.*);$', rest_)
                m2 = re.match(r'^(.*) = \{$', rest_)
                if m1 and not rest_.endswith('{'):
                    fns.setdefault('const ' + nm_, ('constval', parse_const(m1.group(2))))
                    i += 1
                    continue
                if m2:
                    j = i
                    while lines[j] != '}':
                        j += 1
                    body = ['fn ' + nm_ + '() -> ' + m2.group(1) + ' {'] + lines[i + 1:j + 1]
                    try:
                        fns.setdefault('const ' + nm_, parse_fn(body))
                    except Unsupported as e:
                        fns.setdefault('const ' + nm_, e)
                    i = j + 1
                    continue
        if mc:
            fns.setdefault('const ' + mc.group(1), ('constval', parse_const(mc.group(3))))
            i += 1
            continue
        mc = re.match(r'^const (.*?): (.*) = \{$', ln)
        if mc:
            j = i
            while lines[j] != '}':
                j += 1
            body = ['fn ' + mc.group(1) + '() -> ' + mc.group(2) + ' {'] + lines[i + 1:j + 1]
            try:
                fns.setdefault('const ' + mc.group(1), parse_fn(body))
            except Unsupported as e:
                fns.setdefault('const ' + mc.group(1), e)
            i = j + 1
            continue
        if ln.startswith('fn '):
            j = i
            while lines[j] != '}':
                j += 1
            body = lines[i:j + 1]
            try:
                f = parse_fn(body)
                key = f.name
            except Unsupported as e:
                m = FN_RE.match(body[0])
                f = e
                key = m.group(1) if m else body[0]
            if key in fns:
                # several items expanded from one macro span share a symbol: keep all, in order of appearance, as name#1, name#2 ..
                k = 1
                while f'{key}#{k}' in fns:
                    k += 1
                key = f'{key}#{k}'
            fns[key] = f
            i = j + 1
        else:
            i += 1
    return fns


def parse_fn(body):
    head = body[0]
    # name ends at the first '(' that starts the parameter list: params start with "_1: " or are empty
    po = head.index('(_1: ') if '(_1: ' in head else head.index('() -> ')
    pc = find_matching_close(head, po)
    name, params_s = head[3:po], head[po + 1:pc]
    ret = head[pc + 1:].strip()
    assert ret.startswith('-> ') and ret.endswith('{'), head
    ret = ret[3:-1].strip()
    params = []
    if params_s:
        for p in split_top(params_s):
            l, t = p.split(': ', 1)
            params.append((int(l[1:]), t))
    locals_ = {}
    blocks = {}
    cur = None
    for ln in body[1:]:
        s = ln.strip()
        m = re.match(r'^let (mut )?_(\d+): (.*);$', s)
        if m:
            locals_[int(m.group(2))] = m.group(3)
            continue
        m = re.match(r'^(bb\d+)( \(cleanup\))?: \{$', s)
        if m:
            cur = m.group(1)
            blocks[cur] = []
            blocks[cur + '#cleanup'] = bool(m.group(2))
            continue
        if s == '}' or not s or s.startswith(('debug ', 'scope ')):
            if s == '}':
                pass
            continue
        if cur is None:
            continue
        if blocks.get(cur + '#cleanup'):
            continue  # unwinding paths are not executed
        blocks[cur].append(parse_stmt(s))
    return Fn(name, params, ret, locals_, blocks, '\n'.join(body))
