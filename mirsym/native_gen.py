"""Generates the scratch crates for the native helpers (see DESIGN.md 2.6).

The crate sources are copied byte-for-byte; the only edits are
  macros:  lib.rs   - the `#[proc_macro_derive(..)]` attribute line and the two crate-level lint lines are dropped,
                      `extern crate proc_macro;` is added, native/macros_replay.rs is appended
  ts-rs:   export.rs - native/tsrs_replay.rs is appended;  lib.rs - one `pub use` line is appended
"""
import os
import re
import shutil

VERIF = os.path.dirname(os.path.dirname(os.path.abspath(__file__)))
NATIVE = os.path.join(VERIF, 'native')

KINDS = {
    'macros': ('macros', ['serde-compat']),
    'macros-noserde': ('macros', []),
    'macros-nowarn': ('macros', ['serde-compat', 'no-serde-warnings']),
    'tsrs': ('tsrs', []),
    'tsrs-esm': ('tsrs', ['import-esm']),
}


def _read(p):
    with open(p) as fh:
        return fh.read()


def _write(p, s):
    os.makedirs(os.path.dirname(p), exist_ok=True)
    with open(p, 'w') as fh:
        fh.write(s)


def generate(kind, scratch, repo):
    base, feats = KINDS[kind]
    helper = os.path.join(scratch, 'helper')
    os.makedirs(os.path.join(helper, 'src'))
    if os.path.exists(os.path.join(repo, 'Cargo.lock')):
        shutil.copy(os.path.join(repo, 'Cargo.lock'), os.path.join(helper, 'Cargo.lock'))
    featlist = ', '.join(f'"{f}"' for f in feats)
    if base == 'macros':
        lib = os.path.join(scratch, 'tsm_lib')
        shutil.copytree(os.path.join(repo, 'macros', 'src'), os.path.join(lib, 'src'))
        cargo = _read(os.path.join(repo, 'macros', 'Cargo.toml'))
        cargo = re.sub(r'\[lib\]\s*\nproc-macro\s*=\s*true\s*\n', '', cargo)
        cargo = re.sub(r'(?m)^name\s*=\s*"ts-rs-macros"', 'name = "tsm_lib"', cargo)
        _write(os.path.join(lib, 'Cargo.toml'), cargo)
        p = os.path.join(lib, 'src', 'lib.rs')
        s = _read(p)
        s = re.sub(r'(?m)^#!\[macro_use\]\s*\n', '', s)
        s = re.sub(r'(?m)^#!\[deny\(unused\)\]\s*\n', '', s)
        s = re.sub(r'(?m)^#\[proc_macro_derive\(TS, attributes\(ts\)\)\]\s*\n', '', s)
        s = 'extern crate proc_macro;\n' + s + _read(os.path.join(NATIVE, 'macros_replay.rs'))
        _write(p, s)
        _write(os.path.join(helper, 'Cargo.toml'), f'''[package]
name = "helper"
version = "0.0.0"
edition = "2021"
[workspace]
[dependencies]
tsm_lib = {{ path = "../tsm_lib", default-features = false, features = [{featlist}] }}
''')
        from . import build
        case_src, _ = build.serde_case_path()
        _write(os.path.join(helper, 'src', 'main.rs'),
               f'#![allow(dead_code)]\n#[path = "{case_src}"]\nmod case;\n'
               + _read(os.path.join(NATIVE, 'helper_macros.rs')) + _read(os.path.join(NATIVE, 'helper_common.rs')))
    else:
        lib = os.path.join(scratch, 'ts-rs')
        shutil.copytree(os.path.join(repo, 'ts-rs', 'src'), os.path.join(lib, 'src'))
        cargo = _read(os.path.join(repo, 'ts-rs', 'Cargo.toml'))
        cargo = re.sub(r'path\s*=\s*"\.\./macros"', f'path = "{os.path.join(repo, "macros")}"', cargo)
        cargo = re.sub(r'(?m)^readme\s*=.*\n', '', cargo)
        _write(os.path.join(lib, 'Cargo.toml'), cargo)
        p = os.path.join(lib, 'src', 'export.rs')
        _write(p, _read(p) + _read(os.path.join(NATIVE, 'tsrs_replay.rs')))
        p = os.path.join(lib, 'src', 'lib.rs')
        _write(p, _read(p) + '\n#[doc(hidden)]\npub use crate::export::verif_replay;\n')
        _write(os.path.join(helper, 'Cargo.toml'), f'''[package]
name = "helper"
version = "0.0.0"
edition = "2021"
[workspace]
[dependencies]
ts-rs = {{ path = "../ts-rs", features = [{featlist}] }}
''')
        _write(os.path.join(helper, 'src', 'main.rs'),
               _read(os.path.join(NATIVE, 'helper_tsrs.rs')) + _read(os.path.join(NATIVE, 'helper_common.rs')))
