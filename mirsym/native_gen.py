"""Generates the scratch crates for the native helpers (see DESIGN.md 2.6).

The crate sources are copied byte-for-byte; the only edits are
  macros:  lib.rs   - the `#[proc_macro_derive(..)]` attribute line and the two crate-level lint lines are dropped,
                      `extern crate proc_macro;` is added, native/macros_replay.rs is appended
  ts-rs:   export.rs - native/tsrs_replay.rs is appended;  lib.rs - one `pub use` line is appended
"""
import os
import re
import shutil

VERIF = os.path.dirname(os.path.dirname(os.path.abspath(__file__)))
NATIVE = os.path.join(VERIF, 'native')

KINDS = {
    'macros': ('macros', ['serde-compat']),
    'macros-noserde': ('macros', []),
    'macros-nowarn': ('macros', ['serde-compat', 'no-serde-warnings']),
    'tsrs': ('tsrs', []),
    'tsrs-esm': ('tsrs', ['import-esm']),
}


def _read(p):
    with open(p) as fh:
        return fh.read()


def _write(p, s):
    os.makedirs(os.path.dirname(p), exist_ok=True)
    with open(p, 'w') as fh:
        fh.write(s)


# private functions the ts-rs replay module calls directly, with the parameter types it assumes.  When a refactor changes one of
# these signatures the wrapper is replaced by a panic (so the helper still builds and every other entry keeps working); harnesses
# ask `entry_available` and fall back to the cells that reach the function through its callers.
EXPECTED_SIGS = {
    'merge': ('export.rs', ['String', 'String']),
    'import_path': ('export.rs', ['&Path', '&Path']),
    'export_and_merge': ('export.rs', ['PathBuf', 'String', 'String']),
    'absolute': ('export/path.rs', None),
    'diff_paths': ('export/path.rs', None),
}


def fn_params(src, name):
    """parameter types of the first `fn name(` in the source text (None when absent)"""
    m = re.search(r'\bfn\s+' + re.escape(name) + r'\b[^(;{]*\(', src)
    if not m:
        return None
    i, depth, start = m.end(), 1, m.end()
    while i < len(src) and depth:
        depth += src[i] in '([{<' and not (src[i] == '<' and src[i - 1] == '-')
        depth -= src[i] in ')]}' or (src[i] == '>' and src[i - 1] != '-')
        i += 1
    body = src[start:i - 1]
    parts, cur, d = [], '', 0
    for ch in body:
        if ch in '([{<':
            d += 1
        elif ch in ')]}>':
            d -= 1
        if ch == ',' and d == 0:
            parts.append(cur)
            cur = ''
        else:
            cur += ch
    if cur.strip():
        parts.append(cur)
    return [re.sub(r'\s+', '', q.split(':', 1)[1]) if ':' in q else q.strip() for q in parts]


def entry_available(repo, name):
    rel, want = EXPECTED_SIGS[name]
    try:
        got = fn_params(_read(os.path.join(repo, 'ts-rs', 'src', rel)), name)
    except OSError:
        return False
    if got is None:
        return False
    return want is None or got == want


def _adapt_replay(text, repo):
    for name in EXPECTED_SIGS:
        if entry_available(repo, name):
            continue
        # replace the body of `pub fn <name>(..) -> .. { .. }` inside the replay module by a panic
        m = re.search(r'(    pub fn ' + name + r'\([^)]*\)[^{]*\{)(.*?)(\n    \})', text, re.S)
        if m:
            text = text[:m.start(2)] + f'\n        panic!("verif: entry `{name}` unavailable (signature changed)")' + text[m.end(2):]
    return text


def generate(kind, scratch, repo):
    base, feats = KINDS[kind]
    helper = os.path.join(scratch, 'helper')
    os.makedirs(os.path.join(helper, 'src'))
    if os.path.exists(os.path.join(repo, 'Cargo.lock')):
        shutil.copy(os.path.join(repo, 'Cargo.lock'), os.path.join(helper, 'Cargo.lock'))
    featlist = ', '.join(f'"{f}"' for f in feats)
    if base == 'macros':
        lib = os.path.join(scratch, 'tsm_lib')
        shutil.copytree(os.path.join(repo, 'macros', 'src'), os.path.join(lib, 'src'))
        cargo = _read(os.path.join(repo, 'macros', 'Cargo.toml'))
        cargo = re.sub(r'\[lib\]\s*\nproc-macro\s*=\s*true\s*\n', '', cargo)
        cargo = re.sub(r'(?m)^name\s*=\s*"ts-rs-macros"', 'name = "tsm_lib"', cargo)
        _write(os.path.join(lib, 'Cargo.toml'), cargo)
        p = os.path.join(lib, 'src', 'lib.rs')
        s = _read(p)
        s = re.sub(r'(?m)^#!\[macro_use\]\s*\n', '', s)
        s = re.sub(r'(?m)^#!\[deny\(unused\)\]\s*\n', '', s)
        s = re.sub(r'(?m)^#\[proc_macro_derive\(TS, attributes\(ts\)\)\]\s*\n', '', s)
        s = 'extern crate proc_macro;\n' + s + _read(os.path.join(NATIVE, 'macros_replay.rs'))
        _write(p, s)
        _write(os.path.join(helper, 'Cargo.toml'), f'''[package]
name = "helper"
version = "0.0.0"
edition = "2021"
[workspace]
[dependencies]
tsm_lib = {{ path = "../tsm_lib", default-features = false, features = [{featlist}] }}
''')
        from . import build
        case_src, _ = build.serde_case_path()
        _write(os.path.join(helper, 'src', 'main.rs'),
               f'#![allow(dead_code)]\n#[path = "{case_src}"]\nmod case;\n'
               + _read(os.path.join(NATIVE, 'helper_macros.rs')) + _read(os.path.join(NATIVE, 'helper_common.rs')))
    else:
        lib = os.path.join(scratch, 'ts-rs')
        shutil.copytree(os.path.join(repo, 'ts-rs', 'src'), os.path.join(lib, 'src'))
        cargo = _read(os.path.join(repo, 'ts-rs', 'Cargo.toml'))
        cargo = re.sub(r'path\s*=\s*"\.\./macros"', f'path = "{os.path.join(repo, "macros")}"', cargo)
        cargo = re.sub(r'(?m)^readme\s*=.*\n', '', cargo)
        _write(os.path.join(lib, 'Cargo.toml'), cargo)
        p = os.path.join(lib, 'src', 'export.rs')
        _write(p, _read(p) + _adapt_replay(_read(os.path.join(NATIVE, 'tsrs_replay.rs')), repo))
        p = os.path.join(lib, 'src', 'lib.rs')
        _write(p, _read(p) + '\n#[doc(hidden)]\npub use crate::export::verif_replay;\n')
        _write(os.path.join(helper, 'Cargo.toml'), f'''[package]
name = "helper"
version = "0.0.0"
edition = "2021"
[workspace]
[dependencies]
ts-rs = {{ path = "../ts-rs", features = [{featlist}] }}
''')
        _write(os.path.join(helper, 'src', 'main.rs'),
               _read(os.path.join(NATIVE, 'helper_tsrs.rs')) + _read(os.path.join(NATIVE, 'helper_common.rs')))
